import BPT.Py.InsertRec
import BPT.Rust.RemoveLinks
/-
  `_handle_underflow` of the pure-Python map (right donor first, then left, then a
  capacity-guarded merge preferring the left sibling; empty *leaves* are merged
  straight away): on a branch whose child `i` is exactly one key short it never
  raises and restores the occupancy of all children while keeping order, contents
  and the leaf chain.
-/
namespace BPT.Py
open BPT Tree
open BPT.Rust (links links_succ links_zero ChainL firstOf)
variable {K V : Type} [Keyed K]

/-! ### the model's node surgery is the shared one -/
theorem replace2_eq {α : Type} (b : Branch K α) (i : Nat) (l r : α) (sep : K) : replace2 b i l r sep = Rust.branchReplace2 b i l r sep := rfl
theorem merge2_eq {α : Type} (b : Branch K α) (i : Nat) (m : α) : merge2 b i m = Rust.branchMerge2 b i m := rfl
theorem leafBorrowLeft_eq (a c : Leaf K V) : leafBorrowLeft a c = Rust.leafBorrowLeft a c := rfl
theorem branchBorrowLeft_eq {α : Type} (a c : Branch K α) (sep : K) : branchBorrowLeft a c sep = Rust.branchBorrowLeft a c sep := rfl
theorem branchBorrowRight_eq {α : Type} (c r : Branch K α) (sep : K) : branchBorrowRight c r sep = Rust.branchBorrowRight c r sep := rfl
theorem leafBorrowRight_of_rust (c r c' r' : Leaf K V) (k : K) (h : Rust.leafBorrowRight c r = some (c', r', some k)) :
    leafBorrowRight c r = some (c', r', k) := by
  unfold Rust.leafBorrowRight at h
  unfold leafBorrowRight
  cases hk : r.keys with
  | nil => rw [hk] at h; simp at h
  | cons k0 ks =>
    cases hv : r.vals with
    | nil => rw [hk, hv] at h; simp at h
    | cons v0 vs =>
      rw [hk, hv] at h
      simp only [Option.some.injEq, Prod.mk.injEq] at h
      obtain ⟨rfl, rfl, h3⟩ := h
      simp [h3]

/-- what a deletion does to the links: nothing, or two adjacent links are fused -/
inductive PLinkRem (L L' : List (Nat × Nat)) : Prop where
  | same (h1 : L' = L)
  | merge (A B : List (Nat × Nat)) (ia na ib nb : Nat) (h1 : L = A ++ [(ia, na), (ib, nb)] ++ B)
      (h2 : L' = A ++ [(ia, nb)] ++ B)

theorem PLinkRem.ctx {L L' : List (Nat × Nat)} (P Q : List (Nat × Nat)) (h : PLinkRem L L') :
    PLinkRem (P ++ L ++ Q) (P ++ L' ++ Q) := by
  cases h with
  | same h1 => exact .same (by rw [h1])
  | merge A B ia na ib nb h1 h2 =>
    exact .merge (P ++ A) (B ++ Q) ia na ib nb (by rw [h1]; simp only [List.append_assoc]) (by rw [h2]; simp only [List.append_assoc])

theorem PLinkRem.trans_same {L L' L'' : List (Nat × Nat)} (h : PLinkRem L L') (h2 : L'' = L') : PLinkRem L L'' := by
  subst h2; exact h

/-- the situation `_handle_underflow` is called in: child `i` is one key short, everything else is fine -/
structure RebPre (cap h : Nat) (b : Branch K (Tree K V h)) (i : Nat) (lo hi : Option Int) : Prop where
  cap4 : 4 ≤ cap
  ord : Ordered (h+1) b lo hi
  nk : 1 ≤ b.keys.length
  idx : i < b.children.length
  sz : ∀ j c, b.children[j]? = some c → PSized cap h c (if j = i then minKeys cap - 1 else minKeys cap)
  under : ∀ c, b.children[i]? = some c → BPT.nkeys h c + 1 = minKeys cap

structure RebPost (cap h : Nat) (b b2 : Branch K (Tree K V h)) (lo hi : Option Int) : Prop where
  ord : Ordered (h+1) b2 lo hi
  list : toList (h+1) b2 = toList (h+1) b
  sz : ∀ c ∈ b2.children, PSized cap h c (minKeys cap)
  k1 : b.keys.length ≤ b2.keys.length + 1
  k2 : b2.keys.length ≤ b.keys.length
  lk : PLinkRem (links (h+1) b) (links (h+1) b2)
  lk1 : 0 < h → links (h+1) b2 = links (h+1) b

theorem nkeys_eq : ∀ (h : Nat) (t : Tree K V h), Py.nkeys h t = BPT.nkeys h t
  | 0, _ => rfl
  | _+1, _ => rfl

theorem PSized.nkeys (cap : Nat) : ∀ (h : Nat) (t : Tree K V h) (m : Nat), PSized cap h t m → m ≤ BPT.nkeys h t ∧ BPT.nkeys h t ≤ cap
  | 0, _, _, hs => hs
  | _+1, t, _, hs => ⟨hs.1, by have := hs.2.1; show (Branch.keys t).length ≤ cap; omega⟩

/-- replacing children `j, j+1` and the separator between them by a re-cut of their glued contents -/
theorem recut_post (cap h : Nat) (b : Branch K (Tree K V h)) (lo hi : Option Int) (j : Nat) (x y x' y' : Tree K V h) (sep : K)
    (hb : Ordered (h+1) b lo hi) (hx : b.children[j]? = some x) (hy : b.children[j+1]? = some y)
    (hx' : Ordered h x' (loAt b.keys lo j) (some (ord sep))) (hy' : Ordered h y' (some (ord sep)) (hiAt b.keys hi (j+1)))
    (hin : InB (loAt b.keys lo j) (hiAt b.keys hi (j+1)) (ord sep)) (hne : 1 ≤ BPT.nkeys h x')
    (hlist : toList h x' ++ toList h y' = toList h x ++ toList h y)
    (hlinks : links h x' ++ links h y' = links h x ++ links h y)
    (hsx : PSized cap h x' (minKeys cap)) (hsy : PSized cap h y' (minKeys cap))
    (hrest : ∀ n c, b.children[n]? = some c → n ≠ j → n ≠ j + 1 → PSized cap h c (minKeys cap)) :
    RebPost cap h b (replace2 b j x' y' sep) lo hi := by
  have hj1 : j + 1 < b.children.length := lt_of_getElem?_eq_some hy
  obtain ⟨hs, hlen, hkb, hc⟩ := hb
  have hjk : j < b.keys.length := by omega
  have hstrict : ∀ z, loAt b.keys lo j = some z → z < ord sep := by
    intro z hz
    rw [hz] at hx'
    exact bounds_strict h x' z (ord sep) hx' hne
  obtain ⟨f1, f2, f3⟩ := Rust.sep_fits b.keys lo hi j (ord sep) hs hkb hjk hin hstrict
  have hlk : links (h+1) (replace2 b j x' y' sep : Tree K V (h+1)) = links (h+1) (b : Tree K V (h+1)) := by
    rw [replace2_eq, Rust.links_replace2 h b j y x' y' sep hy, Rust.links_two h b j x y hx hy, hlinks]
  refine ⟨?_, ?_, ?_, ?_, ?_, .same hlk, fun _ => hlk⟩
  · exact ordered_replace2 h b lo hi j x' y' sep ⟨hs, hlen, hkb, hc⟩ hj1 hx' hy' f1 f2 f3
  · rw [toList_succ, toList_succ]
    show (setAt (setAt b.children j x') (j+1) y').flatMap (toList h) = b.children.flatMap (toList h)
    rw [Rust.setAt_setAt_succ _ _ _ _ hj1]
    conv => rhs; rw [Rust.eq_take_cons_cons_drop b.children j x y hx hy]
    simp only [List.flatMap_append, List.flatMap_cons]
    rw [← List.append_assoc (toList h x'), hlist, List.append_assoc]
  · intro c hc'
    have hc'' : c ∈ setAt (setAt b.children j x') (j+1) y' := hc'
    rw [Rust.setAt_setAt_succ _ _ _ _ hj1] at hc''
    rcases List.mem_append.1 hc'' with hm | hm
    · rw [List.mem_take_iff_getElem] at hm
      obtain ⟨n, hn, rfl⟩ := hm
      exact hrest n _ (List.getElem?_eq_getElem (by omega)) (by omega) (by omega)
    · rcases List.mem_cons.1 hm with rfl | hm
      · exact hsx
      · rcases List.mem_cons.1 hm with rfl | hm
        · exact hsy
        · rw [List.mem_drop_iff_getElem] at hm
          obtain ⟨n, hn, rfl⟩ := hm
          exact hrest (j + 2 + n) _ (List.getElem?_eq_getElem (by omega)) (by omega) (by omega)
  · show b.keys.length ≤ (setAt b.keys j sep).length + 1
    rw [length_setAt _ _ _ hjk]; omega
  · show (setAt b.keys j sep).length ≤ b.keys.length
    rw [length_setAt _ _ _ hjk]; omega

/-- replacing children `j, j+1` by their merge and dropping the separator between them -/
theorem merge_post (cap h : Nat) (b : Branch K (Tree K V h)) (lo hi : Option Int) (j : Nat) (x y m : Tree K V h)
    (hb : Ordered (h+1) b lo hi) (hx : b.children[j]? = some x) (hy : b.children[j+1]? = some y)
    (hm : Ordered h m (loAt b.keys lo j) (hiAt b.keys hi (j+1)))
    (hlist : toList h m = toList h x ++ toList h y)
    (hlinks : PLinkRem (links h x ++ links h y) (links h m))
    (hlinks1 : 0 < h → links h m = links h x ++ links h y)
    (hsm : PSized cap h m (minKeys cap))
    (hrest : ∀ n c, b.children[n]? = some c → n ≠ j → n ≠ j + 1 → PSized cap h c (minKeys cap)) :
    RebPost cap h b (merge2 b j m) lo hi := by
  have hj1 : j + 1 < b.children.length := lt_of_getElem?_eq_some hy
  have hlen := hb.2.1
  have hjk : j < b.keys.length := by omega
  refine ⟨?_, ?_, ?_, ?_, ?_, ?_, ?_⟩
  · exact ordered_merge2 h b lo hi j m hb hj1 hm
  · rw [toList_succ, toList_succ]
    show (removeAt (setAt b.children j m) (j+1)).flatMap (toList h) = b.children.flatMap (toList h)
    rw [Rust.removeAt_setAt_succ _ _ _ hj1]
    conv => rhs; rw [Rust.eq_take_cons_cons_drop b.children j x y hx hy]
    simp only [List.flatMap_append, List.flatMap_cons]
    rw [hlist, List.append_assoc]
  · intro c hc'
    have hc'' : c ∈ removeAt (setAt b.children j m) (j+1) := hc'
    rw [Rust.removeAt_setAt_succ _ _ _ hj1] at hc''
    rcases List.mem_append.1 hc'' with hm' | hm'
    · rw [List.mem_take_iff_getElem] at hm'
      obtain ⟨n, hn, rfl⟩ := hm'
      exact hrest n _ (List.getElem?_eq_getElem (by omega)) (by omega) (by omega)
    · rcases List.mem_cons.1 hm' with rfl | hm'
      · exact hsm
      · rw [List.mem_drop_iff_getElem] at hm'
        obtain ⟨n, hn, rfl⟩ := hm'
        exact hrest (j + 2 + n) _ (List.getElem?_eq_getElem (by omega)) (by omega) (by omega)
  · show b.keys.length ≤ (removeAt b.keys j).length + 1
    rw [length_removeAt _ _ hjk]; omega
  · show (removeAt b.keys j).length ≤ b.keys.length
    rw [length_removeAt _ _ hjk]; omega
  · rw [merge2_eq, Rust.links_merge2 h b j y m hy, Rust.links_two h b j x y hx hy]
    exact hlinks.ctx _ _
  · intro h0
    rw [merge2_eq, Rust.links_merge2 h b j y m hy, Rust.links_two h b j x y hx hy, hlinks1 h0]

/-! ### two adjacent leaves -/

/-- the separator between children `j` and `j+1` bounds: lower bound of `j` ≤ sep ≤ upper bound of `j+1` -/
theorem sep_between (ks : List K) (lo hi : Option Int) (j : Nat) (hs : KSorted ks) (hkb : ∀ k ∈ ks, InB lo hi (ord k))
    (hj : j < ks.length) :
    (∀ l, loAt ks lo j = some l → l ≤ ord ks[j]) ∧ (∀ u, hiAt ks hi (j+1) = some u → ord ks[j] ≤ u) := by
  have := Rust.sep_inB ks lo hi j hs hkb hj
  exact ⟨fun l hl => this.1 l hl, fun u hu => Int.le_of_lt (this.2 u hu)⟩

/-- `LeafNode.merge_with_right`; either side may be empty (capacity 4 merges an emptied leaf) -/
theorem leafMerge_spec (a c : Leaf K V) (lo hi : Option Int) (s : Int)
    (ha : Ordered 0 (a : Tree K V 0) lo (some s)) (hc : Ordered 0 (c : Tree K V 0) (some s) hi)
    (hlo : ∀ l, lo = some l → l ≤ s) (hhi : ∀ u, hi = some u → s ≤ u) :
    Ordered 0 (leafMerge a c : Tree K V 0) lo hi ∧
      Leaf.entries (leafMerge a c) = Leaf.entries a ++ Leaf.entries c ∧
      (leafMerge a c).keys.length = a.keys.length + c.keys.length ∧
      (leafMerge a c).id = a.id ∧ (leafMerge a c).next = c.next := by
  have hal : a.keys.length = a.vals.length := ha.2.1
  refine ⟨?_, ?_, by simp [leafMerge], rfl, rfl⟩
  · exact leaf_glue a.keys c.keys a.vals c.vals lo hi s a.id c.id a.id a.next c.next c.next ha hc hlo hhi
  · simp only [Leaf.entries, leafMerge]
    exact Rust.zip_append_of_length _ _ _ _ hal

theorem toList_leaf (l : Leaf K V) : toList 0 (l : Tree K V 0) = Leaf.entries l := toList_zero _

theorem minKeys_pos (cap : Nat) (hcap : 4 ≤ cap) : 1 ≤ minKeys cap := by unfold minKeys; omega
theorem two_minKeys (cap : Nat) : 2 * minKeys cap + 1 ≤ cap + 0 ∨ cap = 0 := by unfold minKeys; omega

/-- borrow from the right sibling: children `i` (one short, non-empty) and `i+1` (a donor) -/
theorem leafBorrowRightAt_spec (cap : Nat) (b : Branch K (Leaf K V)) (i : Nat) (lo hi : Option Int) (c r : Leaf K V)
    (hp : RebPre cap 0 (b : Branch K (Tree K V 0)) i lo hi) (hc : b.children[i]? = some c) (hr : b.children[i+1]? = some r)
    (hdon : minKeys cap < r.keys.length) (hcne : c.keys.length ≠ 0) :
    ∃ b2, leafBorrowRightAt b i c r = some b2 ∧ RebPost cap 0 (b : Branch K (Tree K V 0)) b2 lo hi := by
  obtain ⟨hcap, hb, hnk, hidx, hsz, hun⟩ := hp
  obtain ⟨sep, hsep, hoc, hor, hj1, hjk⟩ := Rust.two_children 0 b lo hi i c r hb hc hr
  have hclen : c.keys.length + 1 = minKeys cap := hun c hc
  have hrsz := hsz (i+1) r hr
  simp only [show i + 1 ≠ i by omega, if_false] at hrsz
  have hmk := minKeys_pos cap hcap
  obtain ⟨c', r', k, he, h1, h2, h3, h4, h5, h6, h7, h8, h9, h10⟩ :=
    Rust.leafBorrowRight_spec c r _ _ (ord sep) hoc hor (by omega) (by intro h; simp [h] at hcne)
  refine ⟨replace2 b i c' r' k, ?_, ?_⟩
  · simp [leafBorrowRightAt, leafBorrowRight_of_rust c r c' r' k he, hjk]
  · apply recut_post cap 0 b lo hi i c r c' r' k hb hc hr h1 h2 h3
    · show 1 ≤ (c' : Leaf K V).keys.length; omega
    · simp only [toList_leaf]; exact h4
    · show [((c' : Leaf K V).id, (c' : Leaf K V).next)] ++ [((r' : Leaf K V).id, (r' : Leaf K V).next)] = [(c.id, c.next)] ++ [(r.id, r.next)]
      rw [h7, h8, h9, h10]
    · exact ⟨by show minKeys cap ≤ (c' : Leaf K V).keys.length; omega, by show (c' : Leaf K V).keys.length ≤ cap; unfold minKeys at *; omega⟩
    · exact ⟨by show minKeys cap ≤ (r' : Leaf K V).keys.length; omega, by show (r' : Leaf K V).keys.length ≤ cap; have := hrsz.2; omega⟩
    · intro n x hx hn1 hn2
      have := hsz n x hx
      simp only [hn1, if_false] at this; exact this

/-- borrow from the left sibling: children `j` (a donor) and `j+1` (one short, non-empty) -/
theorem leafBorrowLeftAt_spec (cap : Nat) (b : Branch K (Leaf K V)) (j : Nat) (lo hi : Option Int) (a c : Leaf K V)
    (hp : RebPre cap 0 (b : Branch K (Tree K V 0)) (j+1) lo hi) (ha : b.children[j]? = some a) (hc : b.children[j+1]? = some c)
    (hdon : minKeys cap < a.keys.length) (hcne : c.keys.length ≠ 0) :
    ∃ b2, leafBorrowLeftAt b (j+1) a c = some b2 ∧ RebPost cap 0 (b : Branch K (Tree K V 0)) b2 lo hi := by
  obtain ⟨hcap, hb, hnk, hidx, hsz, hun⟩ := hp
  obtain ⟨sep, hsep, hoa, hoc, hj1, hjk⟩ := Rust.two_children 0 b lo hi j a c hb ha hc
  have hclen : c.keys.length + 1 = minKeys cap := hun c hc
  have hasz := hsz j a ha
  simp only [show j ≠ j + 1 by omega, if_false] at hasz
  have hmk := minKeys_pos cap hcap
  obtain ⟨a', c', k, he, h1, h2, h3, h4, h5, h6, h7, h8, h9, h10⟩ :=
    Rust.leafBorrowLeft_spec a c _ _ (ord sep) hoa hoc (by omega) (by intro h; simp [h] at hcne)
  refine ⟨replace2 b j a' c' k, ?_, ?_⟩
  · simp [leafBorrowLeftAt, leafBorrowLeft_eq, he, hjk]
  · apply recut_post cap 0 b lo hi j a c a' c' k hb ha hc h1 h2 h3
    · show 1 ≤ (a' : Leaf K V).keys.length; omega
    · simp only [toList_leaf]; exact h4
    · show [((a' : Leaf K V).id, (a' : Leaf K V).next)] ++ [((c' : Leaf K V).id, (c' : Leaf K V).next)] = [(a.id, a.next)] ++ [(c.id, c.next)]
      rw [h7, h8, h9, h10]
    · exact ⟨by show minKeys cap ≤ (a' : Leaf K V).keys.length; omega, by show (a' : Leaf K V).keys.length ≤ cap; have := hasz.2; omega⟩
    · exact ⟨by show minKeys cap ≤ (c' : Leaf K V).keys.length; omega, by show (c' : Leaf K V).keys.length ≤ cap; unfold minKeys at *; omega⟩
    · intro n x hx hn1 hn2
      have := hsz n x hx
      simp only [hn2, if_false] at this; exact this

/-- `_merge_with_sibling` for a leaf child that is one short: the capacity guard passes
    (the sibling is not a donor, or the child is empty) and the merge restores the branch -/
theorem mergeLeafSibling_spec (cap : Nat) (b : Branch K (Leaf K V)) (i : Nat) (lo hi : Option Int) (c : Leaf K V)
    (hp : RebPre cap 0 (b : Branch K (Tree K V 0)) i lo hi) (hc : b.children[i]? = some c)
    (hfit : ∀ j s, (j + 1 = i ∨ (i = 0 ∧ j = 1)) → b.children[j]? = some s → s.keys.length + c.keys.length ≤ cap) :
    ∃ b2, mergeLeafSibling cap b i = some b2 ∧ RebPost cap 0 (b : Branch K (Tree K V 0)) b2 lo hi := by
  have hp' := hp
  obtain ⟨hcap, hb, hnk, hidx, hsz, hun⟩ := hp
  have hlen : b.children.length = b.keys.length + 1 := hb.2.1
  have hmk := minKeys_pos cap hcap
  have hclen : c.keys.length + 1 = minKeys cap := hun c hc
  unfold mergeLeafSibling
  have hg : ¬ (b.keys.length + 1 ≠ b.children.length) := by omega
  simp only [hg, if_false, hc]
  by_cases hi0 : i > 0
  · obtain ⟨j, rfl⟩ : ∃ j, i = j + 1 := ⟨i - 1, by omega⟩
    have haj : b.children[j]? = some b.children[j] := List.getElem?_eq_getElem (by omega)
    generalize b.children[j] = a at haj
    have hfit' := hfit j a (Or.inl rfl) haj
    simp only [hi0, if_true, Nat.add_sub_cancel, haj, hfit']
    obtain ⟨sep, hsep, hoa, hoc, hj1, hjk⟩ := Rust.two_children 0 b lo hi j a c hb haj hc
    have hsepe : sep = b.keys[j] := by rw [List.getElem?_eq_getElem hjk] at hsep; exact (Option.some.inj hsep).symm
    obtain ⟨hs, _, hkb, _⟩ := hb
    have hbt := sep_between b.keys lo hi j hs hkb hjk
    rw [← hsepe] at hbt
    obtain ⟨m1, m2, m3, m4, m5⟩ := leafMerge_spec a c _ _ (ord sep) hoa hoc hbt.1 hbt.2
    have hasz := hsz j a haj
    simp only [show j ≠ j + 1 by omega, if_false] at hasz
    refine ⟨_, rfl, ?_⟩
    apply merge_post cap 0 b lo hi j a c (leafMerge a c) hp'.ord haj hc m1
    · simp only [toList_leaf]; exact m2
    · refine .merge [] [] a.id a.next c.id c.next rfl ?_
      show [((leafMerge a c).id, (leafMerge a c).next)] = _
      rw [m4, m5]; rfl
    · intro h0; exact absurd h0 (Nat.lt_irrefl 0)
    · exact ⟨by show minKeys cap ≤ (leafMerge a c).keys.length; have := hasz.1; omega, by show (leafMerge a c).keys.length ≤ cap; omega⟩
    · intro n x hx hn1 hn2
      have := hsz n x hx
      simp only [hn2, if_false] at this; exact this
  · have hi0' : i = 0 := by omega
    subst hi0'
    have hr : 0 + 1 < b.children.length := by omega
    have hrj : b.children[0+1]? = some b.children[0+1] := List.getElem?_eq_getElem hr
    generalize b.children[0+1] = r at hrj
    have hfit' := hfit 1 r (Or.inr ⟨rfl, rfl⟩) hrj
    have hfit'' : c.keys.length + r.keys.length ≤ cap := by omega
    simp only [Nat.lt_irrefl, if_false, hr, if_true, hrj, hfit'']
    obtain ⟨sep, hsep, hoc, hor, hj1, hjk⟩ := Rust.two_children 0 b lo hi 0 c r hb hc hrj
    have hsepe : sep = b.keys[0] := by rw [List.getElem?_eq_getElem hjk] at hsep; exact (Option.some.inj hsep).symm
    obtain ⟨hs, _, hkb, _⟩ := hb
    have hbt := sep_between b.keys lo hi 0 hs hkb hjk
    rw [← hsepe] at hbt
    obtain ⟨m1, m2, m3, m4, m5⟩ := leafMerge_spec c r _ _ (ord sep) hoc hor hbt.1 hbt.2
    have hrsz := hsz (0+1) r hrj
    simp only [show 0 + 1 ≠ 0 by omega, if_false] at hrsz
    refine ⟨_, rfl, ?_⟩
    apply merge_post cap 0 b lo hi 0 c r (leafMerge c r) hp'.ord hc hrj m1
    · simp only [toList_leaf]; exact m2
    · refine .merge [] [] c.id c.next r.id r.next rfl ?_
      show [((leafMerge c r).id, (leafMerge c r).next)] = _
      rw [m4, m5]; rfl
    · intro h0; exact absurd h0 (Nat.lt_irrefl 0)
    · exact ⟨by show minKeys cap ≤ (leafMerge c r).keys.length; have := hrsz.1; omega, by show (leafMerge c r).keys.length ≤ cap; omega⟩
    · intro n x hx hn1 hn2
      have := hsz n x hx
      simp only [hn1, if_false] at this; exact this

theorem sibRight_some {α : Type} (b : Branch K α) (i : Nat) (r : α) (h : sibRight b i = some r) : b.children[i+1]? = some r := by
  unfold sibRight at h
  split at h
  · exact h
  · cases h
theorem sibRight_none {α : Type} (b : Branch K α) (i : Nat) (h : sibRight b i = none) : b.children.length ≤ i + 1 := by
  unfold sibRight at h
  split at h
  · rename_i hlt
    rw [List.getElem?_eq_getElem hlt] at h; cases h
  · omega
theorem sibLeft_some {α : Type} (b : Branch K α) (i : Nat) (a : α) (h : sibLeft b i = some a) : ∃ j, i = j + 1 ∧ b.children[j]? = some a := by
  unfold sibLeft at h
  split at h
  · exact ⟨i - 1, by omega, h⟩
  · cases h
theorem sibLeft_none {α : Type} (b : Branch K α) (i : Nat) (hi : i < b.children.length) (h : sibLeft b i = none) : i = 0 := by
  unfold sibLeft at h
  split at h
  · rename_i hlt
    rw [List.getElem?_eq_getElem (by omega)] at h; cases h
  · omega

theorem handleLeaf_spec (cap : Nat) (b : Branch K (Leaf K V)) (i : Nat) (lo hi : Option Int)
    (hp : RebPre cap 0 (b : Branch K (Tree K V 0)) i lo hi) :
    ∃ b2, handleLeaf cap b i = some b2 ∧ RebPost cap 0 (b : Branch K (Tree K V 0)) b2 lo hi := by
  have hp' := hp
  obtain ⟨hcap, hb, hnk, hidx, hsz, hun⟩ := hp
  have hlen : b.children.length = b.keys.length + 1 := hb.2.1
  have hci : b.children[i]? = some b.children[i] := List.getElem?_eq_getElem hidx
  generalize b.children[i] = c at hci
  have hclen : c.keys.length + 1 = minKeys cap := hun c hci
  have hmk := minKeys_pos cap hcap
  have hcsz := hsz i c hci
  simp only [if_true] at hcsz
  -- sizes of siblings
  have sib : ∀ j s, j ≠ i → b.children[j]? = some s → minKeys cap ≤ s.keys.length ∧ s.keys.length ≤ cap := by
    intro j s hj hs
    have := hsz j s hs
    simp only [hj, if_false] at this; exact this
  unfold handleLeaf
  have hund : isUnderfull cap c.keys.length = true := by simp [isUnderfull]; omega
  simp only [hci, hund, not_true_eq_false, if_false]
  by_cases hc0 : c.keys.length = 0
  · simp only [hc0, if_true]
    refine mergeLeafSibling_spec cap b i lo hi c hp' hci ?_
    intro j s hj hs
    have := sib j s (by omega) hs
    omega
  · simp only [hc0, if_false]
    -- merging when no sibling donates
    have mergeOK : (∀ j s, (j + 1 = i ∨ (i = 0 ∧ j = 1)) → b.children[j]? = some s → ¬ minKeys cap < s.keys.length) →
        ∃ b2, mergeLeafSibling cap b i = some b2 ∧ RebPost cap 0 (b : Branch K (Tree K V 0)) b2 lo hi := by
      intro hnd
      refine mergeLeafSibling_spec cap b i lo hi c hp' hci ?_
      intro j s hj hs
      have h1 := hnd j s hj hs
      have : 2 * minKeys cap ≤ cap := by unfold minKeys; omega
      omega
    have leftPart : (∀ r, b.children[i+1]? = some r → ¬ minKeys cap < r.keys.length) →
        ∃ b2, handleLeafLeft cap b i c = some b2 ∧ RebPost cap 0 (b : Branch K (Tree K V 0)) b2 lo hi := by
      intro hrnd
      unfold handleLeafLeft
      cases hl : sibLeft b i with
      | none =>
        have hi0 := sibLeft_none b i hidx hl
        subst hi0
        simp only []
        apply mergeOK
        intro j s hj hs
        rcases hj with hj | ⟨_, hj⟩
        · omega
        · subst hj; exact hrnd s hs
      | some a =>
        obtain ⟨j, rfl, haj⟩ := sibLeft_some b i a hl
        simp only []
        by_cases hdon : minKeys cap < a.keys.length
        · have : canDonate cap a.keys.length = true := by simp [canDonate, hdon]
          simp only [this, if_true]
          exact leafBorrowLeftAt_spec cap b j lo hi a c hp' haj hci hdon hc0
        · have : canDonate cap a.keys.length = false := by simp [canDonate]; omega
          simp only [this, Bool.false_eq_true, if_false]
          apply mergeOK
          intro j' s hj hs
          rcases hj with hj | ⟨hj, _⟩
          · have : j' = j := by omega
            subst this; rw [haj] at hs; cases hs; exact hdon
          · omega
    cases hr : sibRight b i with
    | none =>
      have := sibRight_none b i hr
      simp only []
      apply leftPart
      intro r hr'
      have := lt_of_getElem?_eq_some hr'
      omega
    | some r =>
      have hrj := sibRight_some b i r hr
      simp only []
      by_cases hdr : minKeys cap < r.keys.length
      · have : canDonate cap r.keys.length = true := by simp [canDonate, hdr]
        simp only [this, if_true]
        exact leafBorrowRightAt_spec cap b i lo hi c r hp' hci hrj hdr hc0
      · have : canDonate cap r.keys.length = false := by simp [canDonate]; omega
        simp only [this, Bool.false_eq_true, if_false]
        apply leftPart
        intro r' hr'
        rw [hrj] at hr'; cases hr'; exact hdr

end BPT.Py
