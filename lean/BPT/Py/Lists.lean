import BPT.Rust.InsertLeaf3
/-
  List facts the Python proofs need on top of the shared library: lower bounds of
  the two halves of a cut sorted list.
-/
namespace BPT.Py
open BPT
variable {K V : Type} [Keyed K]

theorem lowerBound_take (ks : List K) (k : K) (m : Nat) (h : lowerBound ks k ≤ m) :
    lowerBound (ks.take m) k = lowerBound ks k := by
  induction ks generalizing m with
  | nil => simp [lowerBound_nil]
  | cons a as ih =>
    rw [lowerBound_cons] at h ⊢
    by_cases ha : ord a < ord k
    · simp only [ha, if_true] at h ⊢
      cases m with
      | zero => omega
      | succ m =>
        rw [List.take_succ_cons, lowerBound_cons]
        simp only [ha, if_true]
        rw [ih m (by omega)]
    · simp only [ha, if_false]
      cases m with
      | zero => simp [lowerBound_nil]
      | succ m => rw [List.take_succ_cons, lowerBound_cons]; simp [ha]

theorem lowerBound_drop (ks : List K) (k : K) (m : Nat) (h : m ≤ lowerBound ks k) :
    lowerBound (ks.drop m) k = lowerBound ks k - m := by
  induction ks generalizing m with
  | nil => simp [lowerBound_nil]
  | cons a as ih =>
    cases m with
    | zero => simp
    | succ m =>
      rw [lowerBound_cons] at h ⊢
      by_cases ha : ord a < ord k
      · simp only [ha, if_true] at h ⊢
        rw [List.drop_succ_cons, ih m (by omega)]
        omega
      · simp only [ha, if_false] at h
        omega

/-- in a sorted list without `k`, `k` is below the key at `m` exactly when its insertion point is at most `m` -/
theorem lt_getElem_iff_lowerBound_le (ks : List K) (k : K) (m : Nat) (r0 : K) (hs : KSorted ks)
    (hnf : ∀ k', ks[lowerBound ks k]? = some k' → ord k' ≠ ord k) (hm : ks[m]? = some r0) :
    ord k < ord r0 ↔ lowerBound ks k ≤ m := by
  have hml : m < ks.length := by
    rcases Nat.lt_or_ge m ks.length with h | h
    · exact h
    · simp [List.getElem?_eq_none h] at hm
  have hr0 : ks[m] = r0 := by simpa [List.getElem?_eq_getElem hml] using hm
  have hsp := lowerBound_spec ks k hs
  have hst := Rust.lowerBound_strict ks k hs hnf
  constructor
  · intro hlt
    rcases Nat.lt_or_ge m (lowerBound ks k) with h | h
    · exfalso
      have : r0 ∈ ks.take (lowerBound ks k) := by
        rw [List.mem_take_iff_getElem]
        exact ⟨m, by omega, hr0⟩
      have := hsp.1 r0 this
      omega
    · exact h
  · intro hle
    have : r0 ∈ ks.drop (lowerBound ks k) := by
      rw [List.mem_drop_iff_getElem]
      refine ⟨m - lowerBound ks k, by omega, ?_⟩
      have : lowerBound ks k + (m - lowerBound ks k) = m := by omega
      simp only [this]; exact hr0
    exact hst r0 this

theorem head?_drop {α : Type} (l : List α) (m : Nat) : (l.drop m).head? = l[m]? := by
  rw [List.head?_eq_getElem?, List.getElem?_drop]; simp

end BPT.Py
