import BPT.Py.InsertLeaf
import BPT.Rust.Links
/-
  `_insert_recursive` of the pure-Python map: order + contents (refinement of
  `SMap.insert`), occupancy, and the effect on the leaf chain, in one induction.
-/
namespace BPT.Py
open BPT Tree
open BPT.Rust (links links_succ links_zero ChainL firstOf)
variable {K V : Type} [Keyed K]

/-- `PSized cap h t m`: leaves hold at most `cap` keys, branches at most `cap - 1`
    (a branch splits as soon as it reaches `cap`), every node below `t` holds at
    least `(cap-1)/2` keys and `t` itself at least `m`. -/
def PSized (cap : Nat) : (h : Nat) → Tree K V h → Nat → Prop
  | 0, (l : Leaf K V), m => m ≤ l.keys.length ∧ l.keys.length ≤ cap
  | h+1, (b : Branch K (Tree K V h)), m =>
      m ≤ b.keys.length ∧ b.keys.length + 1 ≤ cap ∧ ∀ c ∈ b.children, PSized cap h c (minKeys cap)

theorem PSized.mono (cap : Nat) : ∀ (h : Nat) (t : Tree K V h) (m m' : Nat), m' ≤ m → PSized cap h t m → PSized cap h t m'
  | 0, _, _, _, hm, hs => ⟨Nat.le_trans hm hs.1, hs.2⟩
  | _+1, _, _, _, hm, hs => ⟨Nat.le_trans hm hs.1, hs.2.1, hs.2.2⟩

/-- what an insert does to the links: nothing, or one link `(i, n)` becomes `(i, nid), (nid, n)` -/
inductive PLinkIns (L L' : List (Nat × Nat)) (nid nid' : Nat) : Prop where
  | same (h1 : L' = L) (h2 : nid' = nid)
  | split (A B : List (Nat × Nat)) (i n : Nat) (h1 : L = A ++ [(i, n)] ++ B)
      (h2 : L' = A ++ [(i, nid), (nid, n)] ++ B) (h3 : nid' = nid + 1)

theorem PLinkIns.ctx {L L' : List (Nat × Nat)} {nid nid' : Nat} (P Q : List (Nat × Nat)) (h : PLinkIns L L' nid nid') :
    PLinkIns (P ++ L ++ Q) (P ++ L' ++ Q) nid nid' := by
  cases h with
  | same h1 h2 => exact .same (by rw [h1]) h2
  | split A B i n h1 h2 h3 =>
    exact .split (P ++ A) (B ++ Q) i n (by rw [h1]; simp only [List.append_assoc]) (by rw [h2]; simp only [List.append_assoc]) h3

def InsRes.links {h : Nat} : InsRes K V h → List (Nat × Nat)
  | .updated t => Rust.links h t
  | .split a b _ => Rust.links h a ++ Rust.links h b

/-- postcondition of `_insert_recursive` on a subtree `t` -/
def InsPost (cap h : Nat) (lo hi : Option Int) (t : Tree K V h) (k : K) (v : V) (m : Nat) : InsRes K V h → Prop
  | .updated t' => Ordered h t' lo hi ∧ toList h t' = SMap.insert (toList h t) k v ∧ PSized cap h t' m
  | .split a b sep => Ordered h a lo (some (ord sep)) ∧ Ordered h b (some (ord sep)) hi ∧ InB lo hi (ord sep) ∧
      (∀ x, lo = some x → x < ord sep) ∧ toList h a ++ toList h b = SMap.insert (toList h t) k v ∧
      PSized cap h a (minKeys cap) ∧ PSized cap h b (minKeys cap)

theorem mem_setAt' {α : Type} (l : List α) (i : Nat) (x y : α) (h : y ∈ setAt l i x) : y = x ∨ y ∈ l := by
  unfold setAt at h
  rcases List.mem_append.1 h with h | h
  · exact Or.inr (List.mem_of_mem_take h)
  · rcases List.mem_cons.1 h with h | h
    · exact Or.inl h
    · exact Or.inr (List.mem_of_mem_drop h)

theorem insertRec_spec (cap : Nat) (hcap : 4 ≤ cap) :
    ∀ (h : Nat) (t : Tree K V h) (lo hi : Option Int) (k : K) (v : V) (nid m : Nat),
      Ordered h t lo hi → InB lo hi (ord k) → PSized cap h t m → m ≤ minKeys cap →
      ∃ res nid', insertRec cap h t k v nid = some (res, nid') ∧ InsPost cap h lo hi t k v m res ∧
        PLinkIns (links h t) res.links nid nid' := by
  intro h
  induction h with
  | zero =>
    intro t lo hi k v nid m ho hk hsz hm
    obtain ⟨r, he, hp⟩ := insertLeaf_spec cap hcap (t : Leaf K V) lo hi k v nid ho hk hsz.2
    obtain ⟨res, b⟩ := r
    unfold insertRec
    rw [he]
    refine ⟨res, _, rfl, ?_, ?_⟩
    · cases res with
      | updated l' =>
        obtain ⟨h1, h2, _, _, _, h6, h7⟩ := hp
        exact ⟨h1, by rw [toList_zero, toList_zero]; exact h2, Nat.le_trans hsz.1 h6, h7⟩
      | split a c sep =>
        obtain ⟨h1, h2, h3, h4, h5, _, _, _, _, _, h11, h12, h13⟩ := hp
        refine ⟨h1, h2, h3, h4, by rw [toList_zero, toList_zero, toList_zero]; exact h5, ⟨?_, ?_⟩, ⟨?_, ?_⟩⟩ <;>
          (try simp only [minKeys]) <;> omega
    · cases res with
      | updated l' =>
        obtain ⟨_, _, hb, hid, hnx, _, _⟩ := hp
        subst hb
        refine .same ?_ (by simp)
        show [((l' : Leaf K V).id, (l' : Leaf K V).next)] = [((t : Leaf K V).id, (t : Leaf K V).next)]
        rw [hid, hnx]
      | split a c sep =>
        obtain ⟨_, _, _, _, _, hb, ha1, ha2, hc1, hc2, _, _, _⟩ := hp
        subst hb
        refine .split [] [] (t : Leaf K V).id (t : Leaf K V).next rfl ?_ (by simp)
        show [((a : Leaf K V).id, (a : Leaf K V).next)] ++ [((c : Leaf K V).id, (c : Leaf K V).next)] = _
        rw [ha1, ha2, hc1, hc2]; rfl
  | succ h ih =>
    intro t lo hi k v nid m ho hk hsz hm
    have ho' := ho
    obtain ⟨hs, hlen, hkb, hc⟩ := ho
    obtain ⟨hz1, hz2, hz3⟩ := hsz
    have hle := Rust.upperBound_le (Branch.keys t) k
    have hic : upperBound (Branch.keys t) k < (Branch.children t).length := by omega
    have hci : (Branch.children t)[upperBound (Branch.keys t) k]? = some (Branch.children t)[upperBound (Branch.keys t) k] :=
      List.getElem?_eq_getElem hic
    generalize hcdef : (Branch.children t)[upperBound (Branch.keys t) k] = c at hci
    have hcm : c ∈ Branch.children t := List.mem_of_getElem? hci
    have hco := hc _ c hci
    have hkc := Rust.route_inB (Branch.keys t) lo hi k hs hk
    obtain ⟨cres, nid1, he, hr, hlk⟩ := ih c _ _ k v nid (minKeys cap) hco hkc (hz3 c hcm) (Nat.le_refl _)
    -- decomposition of the entry list / the links around the routed child
    have hsplit := flatMap_split (toList h) (Branch.children t) _ c hci
    have hlsplit := flatMap_split (links h) (Branch.children t) _ c hci
    have hA := Rust.left_lt h t lo hi ho' k
    have hB := Rust.right_gt h t lo hi ho' k
    have hins : ∀ M, SMap.insert (((Branch.children t).take (upperBound (Branch.keys t) k)).flatMap (toList h) ++ M ++
          ((Branch.children t).drop (upperBound (Branch.keys t) k + 1)).flatMap (toList h)) k v =
        ((Branch.children t).take (upperBound (Branch.keys t) k)).flatMap (toList h) ++ SMap.insert M k v ++
          ((Branch.children t).drop (upperBound (Branch.keys t) k + 1)).flatMap (toList h) := by
      intro M
      rw [List.append_assoc, SMap.insert_append_left _ _ _ _ hA, SMap.insert_append_right _ _ _ _ hB, List.append_assoc]
    have hguard : ¬ ((Branch.children t).length = 0 ∨ (Branch.keys t).length + 1 ≠ (Branch.children t).length) := by omega
    unfold insertRec
    simp only [hguard, if_false, hci, he]
    cases cres with
    | updated c' =>
      obtain ⟨hr1, hr2, hr3⟩ := hr
      simp only []
      refine ⟨_, _, rfl, ⟨?_, ?_, hz1, hz2, ?_⟩, ?_⟩
      · exact ordered_replace1 h t lo hi _ c' ho' hic hr1
      · rw [toList_succ, toList_succ]
        show (setAt (Branch.children t) _ c').flatMap (toList h) = _
        rw [flatMap_setAt, hsplit, hins, hr2]
      · intro x hx
        rcases mem_setAt' _ _ _ _ hx with rfl | hx
        · exact hr3
        · exact hz3 x hx
      · show PLinkIns (links (h+1) t) (links (h+1) _) nid nid1
        rw [links_succ, links_succ]
        show PLinkIns _ ((setAt (Branch.children t) _ c').flatMap (links h)) nid nid1
        rw [flatMap_setAt, hlsplit]
        exact hlk.ctx _ _
    | split l r sep =>
      obtain ⟨hl, hr', hsepB, hstrict, hlr, hsl, hsr⟩ := hr
      have h1 := Rust.keys_take_lt_of_lo (Branch.keys t) lo _ (ord sep) hs hle hstrict
      have h2 := Rust.keys_drop_gt_of_hi (Branch.keys t) hi _ (ord sep) hs (fun x hx => hsepB.2 x hx)
      have hsepB' : InB lo hi (ord sep) := by
        constructor
        · intro x hx
          by_cases h0 : upperBound (Branch.keys t) k = 0
          · exact hsepB.1 x (by unfold loAt; rw [if_pos h0]; exact hx)
          · have hlt : upperBound (Branch.keys t) k - 1 < (Branch.keys t).length := by omega
            have hk1 := (hkb _ (List.getElem_mem hlt)).1 x hx
            have := hsepB.1 (ord (Branch.keys t)[upperBound (Branch.keys t) k - 1]) (by
              unfold loAt; rw [if_neg h0, List.getElem?_eq_getElem hlt]; rfl)
            omega
        · intro x hx
          by_cases h0 : upperBound (Branch.keys t) k = (Branch.keys t).length
          · exact hsepB.2 x (by unfold hiAt; rw [if_pos h0]; exact hx)
          · have hlt : upperBound (Branch.keys t) k < (Branch.keys t).length := by omega
            have hk1 := (hkb _ (List.getElem_mem hlt)).2 x hx
            have := hsepB.2 (ord (Branch.keys t)[upperBound (Branch.keys t) k]) (by
              unfold hiAt; rw [if_neg h0, List.getElem?_eq_getElem hlt]; rfl)
            omega
      have hb1 : Ordered (h+1) ((t : Branch K (Tree K V h)).split1 (upperBound (Branch.keys t) k) l r sep) lo hi :=
        ordered_split1 h t lo hi _ l r sep ho' hic hl hr' h1 h2 hsepB'
      have hb1ch : insertAt (setAt (Branch.children t) (upperBound (Branch.keys t) k) l) (upperBound (Branch.keys t) k + 1) r =
          (Branch.children t).take (upperBound (Branch.keys t) k) ++ l :: r :: (Branch.children t).drop (upperBound (Branch.keys t) k + 1) :=
        insertAt_setAt_eq _ _ _ _ hic
      have hb1list : (insertAt (setAt (Branch.children t) (upperBound (Branch.keys t) k) l) (upperBound (Branch.keys t) k + 1) r).flatMap (toList h) =
          SMap.insert (toList (h+1) t) k v := by
        rw [toList_succ, hsplit, hins, ← hlr, hb1ch]
        simp [List.flatMap_append]
      have hb1links : (insertAt (setAt (Branch.children t) (upperBound (Branch.keys t) k) l) (upperBound (Branch.keys t) k + 1) r).flatMap (links h) =
          ((Branch.children t).take (upperBound (Branch.keys t) k)).flatMap (links h) ++ (links h l ++ links h r) ++
          ((Branch.children t).drop (upperBound (Branch.keys t) k + 1)).flatMap (links h) := by
        rw [hb1ch]; simp [List.flatMap_append]
      have hmemb1 : ∀ x ∈ insertAt (setAt (Branch.children t) (upperBound (Branch.keys t) k) l) (upperBound (Branch.keys t) k + 1) r,
          PSized cap h x (minKeys cap) := by
        intro x hx
        rcases (mem_insertAt _ _ _ _).1 hx with rfl | hx
        · exact hsr
        · rcases mem_setAt' _ _ _ _ hx with rfl | hx
          · exact hsl
          · exact hz3 x hx
      have hb1len : (insertAt (Branch.keys t) (upperBound (Branch.keys t) k) sep).length = (Branch.keys t).length + 1 :=
        length_insertAt _ _ _ hle
      have hlinks_t : PLinkIns ((Branch.children t).flatMap (links h))
          (((Branch.children t).take (upperBound (Branch.keys t) k)).flatMap (links h) ++ (links h l ++ links h r) ++
            ((Branch.children t).drop (upperBound (Branch.keys t) k + 1)).flatMap (links h)) nid nid1 := by
        rw [hlsplit]
        exact hlk.ctx _ _
      unfold branchInsertSplit
      simp only [isFull, splitMid, decide_eq_true_eq, hb1len]
      by_cases hfull : (Branch.keys t).length + 1 ≥ cap
      · simp only [hfull, not_true_eq_false, if_false]
        have hn : (Branch.keys t).length + 1 = cap := by omega
        cases hpk : (insertAt (Branch.keys t) (upperBound (Branch.keys t) k) sep)[((Branch.keys t).length + 1) / 2]? with
        | none =>
          exfalso
          have := List.getElem?_eq_none_iff.1 hpk
          omega
        | some pk =>
          simp only []
          obtain ⟨hL, hR, hpkB⟩ := branch_cut_spec h _ lo hi (((Branch.keys t).length + 1) / 2) pk (Branch.id t) 0 hb1 hpk
          refine ⟨_, _, rfl, ⟨hL, hR, hpkB, ?_, ?_, ⟨?_, ?_, ?_⟩, ⟨?_, ?_, ?_⟩⟩, ?_⟩
          · intro x hx
            obtain ⟨_, _, hLk, _⟩ := hL
            have hne : (insertAt (Branch.keys t) (upperBound (Branch.keys t) k) sep).take (((Branch.keys t).length + 1) / 2) ≠ [] := by
              intro hnil
              have := congrArg List.length hnil
              rw [List.length_take, hb1len, List.length_nil] at this
              omega
            obtain ⟨k0, hk0⟩ := List.exists_mem_of_ne_nil _ hne
            have := hLk k0 hk0
            have h6 := this.1 x hx
            have h7 := this.2 (ord pk) rfl
            omega
          · rw [toList_succ, toList_succ, ← hb1list]
            show List.flatMap (toList h) (List.take _ _) ++ List.flatMap (toList h) (List.drop _ _) = _
            rw [← List.flatMap_append, List.take_append_drop]
          · show minKeys cap ≤ (List.take _ (insertAt (Branch.keys t) _ sep)).length
            rw [List.length_take, hb1len]; simp only [minKeys]; omega
          · show (List.take _ (insertAt (Branch.keys t) _ sep)).length + 1 ≤ cap
            rw [List.length_take, hb1len]; omega
          · intro x hx; exact hmemb1 x (List.mem_of_mem_take hx)
          · show minKeys cap ≤ (List.drop _ (insertAt (Branch.keys t) _ sep)).length
            rw [List.length_drop, hb1len]; simp only [minKeys]; omega
          · show (List.drop _ (insertAt (Branch.keys t) _ sep)).length + 1 ≤ cap
            rw [List.length_drop, hb1len]; omega
          · intro x hx; exact hmemb1 x (List.mem_of_mem_drop hx)
          · simp only [InsRes.links, links_succ]
            rw [← List.flatMap_append, List.take_append_drop, hb1links]
            exact hlinks_t
      · simp only [hfull, not_false_eq_true, if_true]
        refine ⟨_, _, rfl, ⟨hb1, ?_, ?_, ?_, hmemb1⟩, ?_⟩
        · rw [toList_succ]; exact hb1list
        · show m ≤ (insertAt (Branch.keys t) _ sep).length
          rw [hb1len]; omega
        · show (insertAt (Branch.keys t) _ sep).length + 1 ≤ cap
          rw [hb1len]; omega
        · simp only [InsRes.links, links_succ]
          rw [hb1links]
          exact hlinks_t

end BPT.Py
