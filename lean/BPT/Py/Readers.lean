import BPT.Py.Top
import BPT.Core.Sorted
/-
  Readers of the pure-Python map on valid states: the descent of `get`/`in`
  is `SMap.lookup`; the chain walk from `self.leaves` visits exactly the leaves in
  tree order; `len` is the number of entries; `items(start, end)` is the filter
  `start <= key < end` of the sorted entry list.
-/
namespace BPT.Py
open BPT Tree
open BPT.Rust (links links_succ links_zero ChainL firstOf link)
variable {K V : Type} [Keyed K]

/-! ### lookup -/

theorem findRec_spec : ∀ (h : Nat) (t : Tree K V h) (lo hi : Option Int) (k : K),
    Ordered h t lo hi → findRec h t k = some (SMap.lookup (toList h t) k) := by
  intro h
  induction h with
  | zero =>
    intro t lo hi k ho
    obtain ⟨hs, hl, hb⟩ := ho
    rw [toList_zero]
    simp only [Leaf.entries]
    rw [SMap.lookup_zip _ _ k hs hl]
    unfold findRec
    simp only []
    cases hk : (t : Leaf K V).keys[lowerBound (t : Leaf K V).keys k]? with
    | none => rfl
    | some k' =>
      have hlt : lowerBound (t : Leaf K V).keys k < (t : Leaf K V).keys.length := lt_of_getElem?_eq_some hk
      have hltv : lowerBound (t : Leaf K V).keys k < (t : Leaf K V).vals.length := by omega
      simp only [List.getElem?_eq_getElem hltv]
      split <;> rfl
  | succ h ih =>
    intro t lo hi k ho
    have ho' := ho
    obtain ⟨hs, hlen, hkb, hc⟩ := ho
    have hle := Rust.upperBound_le (Branch.keys t) k
    have hic : upperBound (Branch.keys t) k < (Branch.children t).length := by omega
    have hci : (Branch.children t)[upperBound (Branch.keys t) k]? = some (Branch.children t)[upperBound (Branch.keys t) k] :=
      List.getElem?_eq_getElem hic
    generalize hcdef : (Branch.children t)[upperBound (Branch.keys t) k] = c at hci
    have hsplit := flatMap_split (toList h) (Branch.children t) _ c hci
    have hA := Rust.left_lt h t lo hi ho' k
    have hB := Rust.right_gt h t lo hi ho' k
    have hguard : ¬ ((Branch.children t).length = 0 ∨ (Branch.keys t).length + 1 ≠ (Branch.children t).length) := by omega
    unfold findRec
    simp only [hguard, if_false, hci]
    rw [ih c _ _ k (hc _ c hci), toList_succ, hsplit, List.append_assoc,
        SMap.lookup_append_left _ _ _ hA, SMap.lookup_append_right _ _ _ hB]

/-! ### the chain walk -/

theorem find_in_suffix (P R : List (Leaf K V)) (l : Leaf K V)
    (hnd : ((P ++ l :: R).map (·.id)).Nodup) : findLeafById (P ++ l :: R) l.id = some l := by
  unfold findLeafById
  rw [List.find?_append]
  have hP : P.find? (fun x => x.id == l.id) = none := by
    rw [List.find?_eq_none]
    intro x hx
    simp only [beq_iff_eq]
    intro he
    rw [List.map_append, List.nodup_append] at hnd
    exact hnd.2.2 x.id (List.mem_map.2 ⟨x, hx, rfl⟩) l.id (by simp) he
  rw [hP]
  simp

/-- walking from the first leaf of any suffix `R` of a well-linked leaf list yields `R` -/
theorem chainFrom_suffix (ls : List (Leaf K V)) (hnd : (ls.map (·.id)).Nodup) (hpos : ∀ l ∈ ls, l.id ≠ noneId) :
    ∀ (R P : List (Leaf K V)) (fuel : Nat), ls = P ++ R → ChainL (R.map link) noneId → R.length + 1 ≤ fuel →
      chainFrom ls fuel (firstOf (R.map link) noneId) = .ok R := by
  intro R
  induction R with
  | nil =>
    intro P fuel _ _ hf
    obtain ⟨f, rfl⟩ : ∃ f, fuel = f + 1 := ⟨fuel - 1, by omega⟩
    simp [chainFrom, firstOf]
  | cons l R ih =>
    intro P fuel hls hch hf
    obtain ⟨f, rfl⟩ : ∃ f, fuel = f + 1 := ⟨fuel - 1, by simp at hf; omega⟩
    have hl : l ∈ ls := by rw [hls]; simp
    have hne : l.id ≠ noneId := hpos l hl
    have hfind : findLeafById ls l.id = some l := by
      rw [hls]; exact find_in_suffix P R l (by rw [← hls]; exact hnd)
    have hch' : l.next = firstOf (R.map link) noneId ∧ ChainL (R.map link) noneId := hch
    have := ih (P ++ [l]) f (by rw [hls]; simp) hch'.2 (by simp at hf ⊢; omega)
    show chainFrom ls (f+1) l.id = _
    unfold chainFrom
    simp only [hne, if_false, hfind]
    rw [hch'.1, this]
    rfl

theorem leaf_ids_of_links (h : Nat) (t : Tree K V h) : (leaves h t).map (·.id) = linkIds (links h t) := by
  simp [linkIds, links, link, List.map_map, Function.comp_def]

theorem chain_spec (s : PState K V) (hi : PInv s) : chain s = .ok (leaves s.height s.root) := by
  have hnd : ((leaves s.height s.root).map (·.id)).Nodup := by rw [leaf_ids_of_links]; exact hi.nodup
  have hpos : ∀ l ∈ leaves s.height s.root, l.id ≠ noneId := by
    intro l hl
    have : l.id ∈ linkIds (links s.height s.root) := by
      rw [← leaf_ids_of_links]; exact List.mem_map.2 ⟨l, hl, rfl⟩
    have := (hi.fresh l.id this).1
    unfold noneId; omega
  have := chainFrom_suffix (leaves s.height s.root) hnd hpos (leaves s.height s.root) [] ((leaves s.height s.root).length + 1)
    rfl hi.chain (Nat.le_refl _)
  unfold chain
  rw [hi.head]
  exact this

/-! ### len -/

theorem leaves_parallel : ∀ (h : Nat) (t : Tree K V h) (lo hi : Option Int), Ordered h t lo hi →
    ∀ l ∈ leaves h t, l.keys.length = l.vals.length := by
  intro h
  induction h with
  | zero =>
    intro t lo hi ho l hl
    simp only [leaves, List.mem_singleton] at hl
    subst hl; exact ho.2.1
  | succ h ih =>
    intro t lo hi ho l hl
    simp only [leaves, List.mem_flatMap] at hl
    obtain ⟨c, hc, hl⟩ := hl
    obtain ⟨i, hi', hci⟩ := List.getElem_of_mem hc
    have := ho.2.2.2 i c (by rw [List.getElem?_eq_getElem hi', hci])
    exact ih c _ _ this l hl

theorem len_spec (s : PState K V) (hi : PInv s) : len s = .ok (abs s).length := by
  unfold len
  rw [chain_spec s hi]
  simp only [Res.map_ok, abs, toList]
  congr 1
  have hp := leaves_parallel s.height s.root none none hi.ord
  generalize leaves s.height s.root = L at hp
  induction L with
  | nil => rfl
  | cons l L ih =>
    simp only [List.map_cons, List.sum_cons, List.flatMap_cons, List.length_append]
    rw [ih (fun x hx => hp x (List.mem_cons_of_mem _ hx))]
    have := hp l List.mem_cons_self
    simp [Leaf.entries, this]

/-! ### range scans -/

/-- `start_key <= key < end_key`, `None` = unbounded on that side -/
def inRange (a b : Option K) (k : K) : Bool :=
  (match a with | none => true | some a => decide (ord a ≤ ord k)) &&
  (match b with | none => true | some b => decide (ord k < ord b))

theorem filter_lt_sorted (L : List (K × V)) (e : K) (hs : SMap.Sorted L) :
    L.filter (fun p => decide (ord p.1 < ord e)) = L.takeWhile (fun p => decide (ord p.1 < ord e)) := by
  induction L with
  | nil => rfl
  | cons p L ih =>
    have hs' := List.pairwise_cons.1 hs
    by_cases hp : ord p.1 < ord e
    · simp only [List.filter_cons, List.takeWhile_cons, hp, decide_true, if_true]
      rw [ih hs'.2]
    · simp only [List.filter_cons, List.takeWhile_cons, hp, decide_false, Bool.false_eq_true, if_false]
      rw [List.filter_eq_nil_iff]
      intro q hq
      have := hs'.1 q hq
      simp; omega

theorem cutStop_spec (b : Option K) (L : List (K × V)) (hs : SMap.Sorted L) :
    cutStop b L = L.filter (fun p => match b with | none => true | some b => decide (ord p.1 < ord b)) := by
  cases b with
  | none => simp only [cutStop]; rw [List.filter_eq_self.2 (fun _ _ => rfl)]
  | some e => simp only [cutStop]; exact (filter_lt_sorted L e hs).symm

/-- a list split into a part below `a` and a part from `a` on: filtering by `a ≤ ·` keeps the second part -/
theorem filter_ge_split (A B : List (K × V)) (a : K) (hA : ∀ p ∈ A, ord p.1 < ord a) (hB : ∀ p ∈ B, ord a ≤ ord p.1) :
    (A ++ B).filter (fun p => decide (ord a ≤ ord p.1)) = B := by
  rw [List.filter_append]
  have h1 : A.filter (fun p => decide (ord a ≤ ord p.1)) = [] := by
    rw [List.filter_eq_nil_iff]; intro p hp; have := hA p hp; simp; omega
  have h2 : B.filter (fun p => decide (ord a ≤ ord p.1)) = B := by
    rw [List.filter_eq_self]; intro p hp; have := hB p hp; simp; omega
  rw [h1, h2]; rfl

theorem filter_inRange (a b : Option K) (L : List (K × V)) :
    L.filter (fun p => inRange a b p.1) =
      (L.filter (fun p => match a with | none => true | some a => decide (ord a ≤ ord p.1))).filter
        (fun p => match b with | none => true | some b => decide (ord p.1 < ord b)) := by
  rw [List.filter_filter]
  congr 1
  funext p
  simp only [inRange, Bool.and_comm]

/-- the leaf `_find_leaf_for_key` reaches, with the leaves before it (all entries below the key)
    and after it (all entries above the key) -/
theorem routeLeaf_spec : ∀ (h : Nat) (t : Tree K V h) (lo hi : Option Int) (a : K), Ordered h t lo hi →
    ∃ l P R lo' hi', routeLeaf h t a = some l ∧ leaves h t = P ++ l :: R ∧ Ordered 0 (l : Tree K V 0) lo' hi' ∧
      (∀ p ∈ P.flatMap Leaf.entries, ord p.1 < ord a) ∧ (∀ p ∈ R.flatMap Leaf.entries, ord a < ord p.1) := by
  intro h
  induction h with
  | zero =>
    intro t lo hi a ho
    exact ⟨t, [], [], lo, hi, rfl, rfl, ho, by simp, by simp⟩
  | succ h ih =>
    intro t lo hi a ho
    have ho' := ho
    obtain ⟨hs, hlen, hkb, hc⟩ := ho
    have hle := Rust.upperBound_le (Branch.keys t) a
    have hic : upperBound (Branch.keys t) a < (Branch.children t).length := by omega
    have hci : (Branch.children t)[upperBound (Branch.keys t) a]? = some (Branch.children t)[upperBound (Branch.keys t) a] :=
      List.getElem?_eq_getElem hic
    generalize hcdef : (Branch.children t)[upperBound (Branch.keys t) a] = c at hci
    obtain ⟨l, P, R, lo', hi', h1, h2, h3, h4, h5⟩ := ih c _ _ a (hc _ c hci)
    have hA := Rust.left_lt h t lo hi ho' a
    have hB := Rust.right_gt h t lo hi ho' a
    have hguard : ¬ ((Branch.children t).length = 0 ∨ (Branch.keys t).length + 1 ≠ (Branch.children t).length) := by omega
    refine ⟨l, ((Branch.children t).take (upperBound (Branch.keys t) a)).flatMap (leaves h) ++ P,
      R ++ ((Branch.children t).drop (upperBound (Branch.keys t) a + 1)).flatMap (leaves h), lo', hi', ?_, ?_, h3, ?_, ?_⟩
    · unfold routeLeaf
      simp only [hguard, if_false, hci]
      exact h1
    · show (Branch.children t).flatMap (leaves h) = _
      rw [flatMap_split (leaves h) (Branch.children t) _ c hci, h2]
      simp only [List.append_assoc, List.cons_append]
    · intro p hp
      rw [List.flatMap_append, List.mem_append] at hp
      rcases hp with hp | hp
      · apply hA p
        unfold toList
        rw [← List.flatMap_assoc]; exact hp
      · exact h4 p hp
    · intro p hp
      rw [List.flatMap_append, List.mem_append] at hp
      rcases hp with hp | hp
      · exact h5 p hp
      · apply hB p
        unfold toList
        rw [← List.flatMap_assoc]; exact hp

theorem abs_sorted (s : PState K V) (hi : PInv s) : SMap.Sorted (abs s) :=
  toList_sorted s.height s.root none none hi.ord

theorem chainFrom_at (s : PState K V) (hi : PInv s) (P R : List (Leaf K V)) (l : Leaf K V)
    (hls : leaves s.height s.root = P ++ l :: R) :
    chainFrom (leaves s.height s.root) ((leaves s.height s.root).length + 1) l.id = .ok (l :: R) := by
  have hnd : ((leaves s.height s.root).map (·.id)).Nodup := by rw [leaf_ids_of_links]; exact hi.nodup
  have hpos : ∀ l ∈ leaves s.height s.root, l.id ≠ noneId := by
    intro l hl
    have : l.id ∈ linkIds (links s.height s.root) := by
      rw [← leaf_ids_of_links]; exact List.mem_map.2 ⟨l, hl, rfl⟩
    have := (hi.fresh l.id this).1
    unfold noneId; omega
  have hch : ChainL ((l :: R).map link) noneId := by
    have := hi.chain
    unfold links at this
    rw [hls, List.map_append, Rust.chainL_append] at this
    exact this.2
  have := chainFrom_suffix (leaves s.height s.root) hnd hpos (l :: R) P ((leaves s.height s.root).length + 1) hls hch
    (by rw [hls]; simp)
  exact this

/-- `items(start_key, end_key)` yields exactly the entries with `start_key <= key < end_key`, ascending -/
theorem items_spec (s : PState K V) (hi : PInv s) (a b : Option K) :
    items s a b = .ok ((abs s).filter (fun p => inRange a b p.1)) := by
  have hsorted := abs_sorted s hi
  rw [filter_inRange]
  cases a with
  | none =>
    simp only [items]
    have hne := Rust.links_ne_nil s.height s.root none none hi.ord
    cases hl : leaves s.height s.root with
    | nil => unfold links at hne; rw [hl] at hne; exact absurd rfl hne
    | cons l R =>
      have hhead : s.head = l.id := by
        rw [hi.head]; unfold links; rw [hl]; rfl
      have hc := chainFrom_at s hi [] R l hl
      unfold itemsFrom
      rw [hhead, hc]
      simp only [Res.map_ok, List.drop_zero]
      have hall : l.keys.zip l.vals ++ R.flatMap (fun l => l.keys.zip l.vals) = abs s := by
        simp only [abs, toList, hl, List.flatMap_cons]; rfl
      rw [hall, cutStop_spec b _ hsorted]
      simp
  | some a =>
    obtain ⟨l, P, R, lo', hi', h1, h2, h3, h4, h5⟩ := routeLeaf_spec s.height s.root none none a hi.ord
    simp only [items, h1]
    have hc := chainFrom_at s hi P R l h2
    unfold itemsFrom
    rw [hc]
    simp only [Res.map_ok]
    obtain ⟨hks, hkl, _⟩ := h3
    have hsp := lowerBound_spec l.keys a hks
    -- abs = (P entries ++ first idx entries of l) ++ (rest of l ++ R entries)
    have habs : abs s = (P.flatMap Leaf.entries ++ (l.keys.zip l.vals).take (lowerBound l.keys a)) ++
        ((l.keys.zip l.vals).drop (lowerBound l.keys a) ++ R.flatMap (fun l => l.keys.zip l.vals)) := by
      simp only [abs, toList, h2, List.flatMap_append, List.flatMap_cons, Leaf.entries]
      rw [List.append_assoc]
      congr 1
      rw [← List.append_assoc, List.take_append_drop]
      rfl
    have hA : ∀ p ∈ P.flatMap Leaf.entries ++ (l.keys.zip l.vals).take (lowerBound l.keys a), ord p.1 < ord a := by
      intro p hp
      rcases List.mem_append.1 hp with hp | hp
      · exact h4 p hp
      · have : (l.keys.zip l.vals).take (lowerBound l.keys a) = (l.keys.take (lowerBound l.keys a)).zip (l.vals.take (lowerBound l.keys a)) := by
          simp only [List.zip, List.take_zipWith]
        rw [this] at hp
        exact hsp.1 p.1 (List.of_mem_zip hp).1
    have hB : ∀ p ∈ (l.keys.zip l.vals).drop (lowerBound l.keys a) ++ R.flatMap (fun l => l.keys.zip l.vals), ord a ≤ ord p.1 := by
      intro p hp
      rcases List.mem_append.1 hp with hp | hp
      · have : (l.keys.zip l.vals).drop (lowerBound l.keys a) = (l.keys.drop (lowerBound l.keys a)).zip (l.vals.drop (lowerBound l.keys a)) := by
          simp only [List.zip, List.drop_zipWith]
        rw [this] at hp
        exact hsp.2 p.1 (List.of_mem_zip hp).1
      · exact Int.le_of_lt (h5 p hp)
    have hsorted2 : SMap.Sorted ((l.keys.zip l.vals).drop (lowerBound l.keys a) ++ R.flatMap (fun l => l.keys.zip l.vals)) := by
      have := hsorted
      rw [habs] at this
      unfold SMap.Sorted at this ⊢
      rw [List.pairwise_append] at this
      exact this.2.1
    rw [cutStop_spec b _ hsorted2, habs, filter_ge_split _ _ a hA hB]

end BPT.Py
