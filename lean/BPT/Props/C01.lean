import BPT.Rust.Top2
import BPT.Core.Sorted
/-
  C01 — Rust map: every call history agrees with a reference ordered map.

  `step` is the map-level API of the Rust model (`none` = the Rust code panics);
  `specStep` is the same API on the reference: a strictly sorted association
  list (`SMap`, what `BTreeMap` is observationally).  Statements only.
-/
namespace BPT.Props.C01
open BPT BPT.Rust

variable {K V : Type} [Keyed K]

inductive Op (K V : Type) where
  | insert (k : K) (v : V)
  | remove (k : K)
  | get (k : K)
  | getMut (k : K) (v : V)        -- `if let Some(x) = get_mut(k) { *x = v }`, reports the old value
  | containsKey (k : K)
  | getOrDefault (k : K) (d : V)
  | len
  | isEmpty
  | clear

inductive Out (V : Type) where
  | optVal (o : Option V)
  | val (v : V)
  | flag (b : Bool)
  | num (n : Nat)
  | unit

/-- the implementation model -/
def step (s : RState K V) : Op K V → Option (RState K V × Out V)
  | .insert k v => (insert s k v).map fun r => (r.1, .optVal r.2)
  | .remove k => (remove s k).map fun r => (r.1, .optVal r.2)
  | .get k => some (s, .optVal ((get s k).map (·.2)))
  | .getMut k v => some ((getMutWrite s k v).1, .optVal (getMutWrite s k v).2)
  | .containsKey k => some (s, .flag (get s k).isSome)
  | .getOrDefault k d => some (s, .val (match get s k with | some p => p.2 | none => d))
  | .len => some (s, .num (len s))
  | .isEmpty => some (s, .flag (len s == 0))
  | .clear => some (clear s, .unit)

/-- the reference: `BTreeMap` as a sorted association list -/
def specStep (m : List (K × V)) : Op K V → List (K × V) × Out V
  | .insert k v => (SMap.insert m k v, .optVal ((SMap.lookup m k).map (·.2)))
  | .remove k => (SMap.erase m k, .optVal ((SMap.lookup m k).map (·.2)))
  | .get k => (m, .optVal ((SMap.lookup m k).map (·.2)))
  | .getMut k v => (SMap.adjust m k v, .optVal ((SMap.lookup m k).map (·.2)))
  | .containsKey k => (m, .flag (SMap.lookup m k).isSome)
  | .getOrDefault k d => (m, .val (match SMap.lookup m k with | some p => p.2 | none => d))
  | .len => (m, .num m.length)
  | .isEmpty => (m, .flag (m.length == 0))
  | .clear => ([], .unit)

def run : RState K V → List (Op K V) → Option (List (Out V))
  | _, [] => some []
  | s, op :: ops =>
    match step s op with
    | none => none
    | some (s', o) => (run s' ops).map (o :: ·)

def specRun : List (K × V) → List (Op K V) → List (Out V)
  | _, [] => []
  | m, op :: ops => (specStep m op).2 :: specRun (specStep m op).1 ops

/-- **Step refinement.**  On a state satisfying the invariant no call panics, every
    call returns what the reference returns, and the abstraction commutes. -/
theorem step_refines (s : RState K V) (op : Op K V) (hi : Inv s) :
    ∃ s' o, step s op = some (s', o) ∧ Inv s' ∧ abs s' = (specStep (abs s) op).1 ∧ o = (specStep (abs s) op).2 ∧
      s'.cap = s.cap := by
  cases op with
  | insert k v =>
    obtain ⟨s', old, he, h1, h2, h3, h4⟩ := insert_spec s k v hi
    exact ⟨s', .optVal old, by simp [step, he], h1, h2, by rw [h3]; rfl, h4⟩
  | remove k =>
    obtain ⟨s', old, he, h1, h2, h3, h4⟩ := remove_spec s k hi
    exact ⟨s', .optVal old, by simp [step, he], h1, h2, by rw [h3]; rfl, h4⟩
  | get k => exact ⟨s, _, rfl, hi, rfl, by rw [get_spec s k hi]; rfl, rfl⟩
  | getMut k v =>
    obtain ⟨h1, h2, h3, h4⟩ := getMutWrite_spec s k v hi
    exact ⟨_, _, rfl, h1, h3, by rw [h2]; rfl, h4⟩
  | containsKey k => exact ⟨s, _, rfl, hi, rfl, by rw [get_spec s k hi]; rfl, rfl⟩
  | getOrDefault k d => exact ⟨s, _, rfl, hi, rfl, by rw [get_spec s k hi]; rfl, rfl⟩
  | len => exact ⟨s, _, rfl, hi, rfl, by rw [len_spec s hi]; rfl, rfl⟩
  | isEmpty => exact ⟨s, _, rfl, hi, rfl, by rw [len_spec s hi]; rfl, rfl⟩
  | clear =>
    obtain ⟨h1, h2, h3⟩ := clear_spec s hi
    exact ⟨_, _, rfl, h1, h2, rfl, h3⟩

/-- **History refinement**: any finite history from any valid state -/
theorem run_refines (ops : List (Op K V)) : ∀ (s : RState K V), Inv s → run s ops = some (specRun (abs s) ops) := by
  induction ops with
  | nil => intro s _; rfl
  | cons op ops ih =>
    intro s hi
    obtain ⟨s', o, he, h1, h2, h3, _⟩ := step_refines s op hi
    simp only [run, he, specRun]
    rw [ih s' h1, h2, h3]; rfl

/-- **C01.** For every accepted capacity and every finite call history on a new map,
    no call panics and every call returns what the reference ordered map returns. -/
theorem refines_btreemap (cap : Nat) (hcap : 4 ≤ cap) (ops : List (Op K V)) :
    ∃ s, (new cap : Option (RState K V)) = some s ∧ run s ops = some (specRun [] ops) := by
  obtain ⟨s, he, hi, habs, _⟩ := (new_spec (K := K) (V := V) cap).2 hcap
  exact ⟨s, he, by rw [run_refines ops s hi, habs]⟩

/-- every reachable state satisfies the invariant (used by the other Rust properties) -/
theorem reachable_inv (ops : List (Op K V)) : ∀ (s : RState K V), Inv s →
    ∀ s', (ops.foldl (fun (acc : Option (RState K V)) op => acc.bind fun s => (step s op).map (·.1)) (some s)) = some s' → Inv s' := by
  induction ops with
  | nil => intro s hi s' h; simp at h; exact h ▸ hi
  | cons op ops ih =>
    intro s hi s' h
    obtain ⟨s1, o, he, h1, _⟩ := step_refines s op hi
    simp only [List.foldl_cons, Option.bind_some, he, Option.map_some] at h
    exact ih s1 h1 s' h

/-! ### the reference really is an ordered map with distinct keys -/

/-- the abstraction is strictly ascending by key, so `len` counts distinct live keys -/
theorem abs_sorted (s : RState K V) (hi : Inv s) : SMap.Sorted (abs s) :=
  toList_sorted s.height s.root none none hi.ord

/-- insert keeps the key object that was stored first and overwrites only the value -/
theorem insert_keeps_first_key_object (m : List (K × V)) (k k' : K) (v v' : V) (hs : SMap.Sorted m)
    (h : SMap.lookup m k = some (k', v')) : SMap.lookup (SMap.insert m k v) k = some (k', v) := by
  induction m with
  | nil => simp [SMap.lookup] at h
  | cons a m ih =>
    obtain ⟨ak, av⟩ := a
    have hs' := List.pairwise_cons.1 hs
    simp only [SMap.insert]
    by_cases h1 : ord k < ord ak
    · -- then `k` cannot be stored at all
      exfalso
      have : SMap.lookup ((ak, av) :: m) k = none := by
        apply SMap.lookup_none_of_gt
        intro p hp
        rcases List.mem_cons.1 hp with rfl | hp
        · exact h1
        · have := hs'.1 p hp; simp at this; omega
      rw [this] at h; cases h
    · by_cases h2 : ord k = ord ak
      · simp only [h1, h2, if_false, if_true]
        have e : (ord ak == ord ak) = true := by simp
        have e2 : (ord ak == ord k) = true := by simp [h2]
        simp only [SMap.lookup, List.find?_cons, e2] at h ⊢
        cases h; simp [h2]
      · simp only [h1, h2, if_false]
        have e : (ord ak == ord k) = false := by simp; omega
        simp only [SMap.lookup, List.find?_cons, e] at h ⊢
        exact ih hs'.2 h

/-- a key that was absent is stored with the inserted key object -/
theorem insert_absent (m : List (K × V)) (k : K) (v : V) (hs : SMap.Sorted m) (h : SMap.lookup m k = none) :
    SMap.lookup (SMap.insert m k v) k = some (k, v) := by
  induction m with
  | nil => simp [SMap.lookup, SMap.insert]
  | cons a m ih =>
    obtain ⟨ak, av⟩ := a
    have hs' := List.pairwise_cons.1 hs
    simp only [SMap.insert]
    by_cases h1 : ord k < ord ak
    · simp [h1, SMap.lookup]
    · by_cases h2 : ord k = ord ak
      · exfalso
        have e2 : (ord ak == ord k) = true := by simp [h2]
        simp [SMap.lookup, List.find?_cons, e2] at h
      · simp only [h1, h2, if_false]
        have e : (ord ak == ord k) = false := by simp; omega
        simp only [SMap.lookup, List.find?_cons, e] at h ⊢
        exact ih hs'.2 h

/-- every other entry is untouched by insert, remove and a `get_mut` write -/
theorem lookup_insert_ne (m : List (K × V)) (k j : K) (v : V) (hne : ord j ≠ ord k) :
    SMap.lookup (SMap.insert m k v) j = SMap.lookup m j := by
  have ekj : (ord k == ord j) = false := by simp; omega
  induction m with
  | nil => simp [SMap.lookup, SMap.insert, ekj]
  | cons a m ih =>
    obtain ⟨ak, av⟩ := a
    simp only [SMap.insert]
    split
    · simp [SMap.lookup, List.find?_cons, ekj]
    · split
      · rename_i h2
        have : (ord ak == ord j) = false := by simp; omega
        simp [SMap.lookup, List.find?_cons, this]
      · simp only [SMap.lookup, List.find?_cons] at ih ⊢
        rw [ih]

theorem lookup_erase_ne (m : List (K × V)) (k j : K) (hne : ord j ≠ ord k) :
    SMap.lookup (SMap.erase m k) j = SMap.lookup m j := by
  induction m with
  | nil => rfl
  | cons a m ih =>
    obtain ⟨ak, av⟩ := a
    simp only [SMap.erase]
    split
    · rename_i h2
      have : (ord ak == ord j) = false := by simp; omega
      simp [SMap.lookup, List.find?_cons, this]
    · simp only [SMap.lookup, List.find?_cons] at ih ⊢
      rw [ih]

/-! the reference map is a map: a removed key is gone, and `len` moves by one exactly when the key set changes -/
/-- after `remove(k)` the key is absent (a sorted map holds a key at most once) -/
theorem lookup_erase_self (m : List (K × V)) (k : K) (hs : SMap.Sorted m) : SMap.lookup (SMap.erase m k) k = none := by
  induction m with
  | nil => simp [SMap.lookup, SMap.erase]
  | cons a m ih =>
    obtain ⟨ak, av⟩ := a
    have hs' := List.pairwise_cons.1 hs
    simp only [SMap.erase]
    by_cases h1 : ord ak = ord k
    · simp only [h1, if_true]
      simp only [SMap.lookup, List.find?_eq_none]
      intro p hp
      have := hs'.1 p hp
      simp at this ⊢; omega
    · have e : (ord ak == ord k) = false := by simp [h1]
      simp only [h1, if_false, SMap.lookup, List.find?_cons, e]
      exact ih hs'.2

/-- `len` moves by exactly one when, and only when, the key set changes -/
theorem length_insert (m : List (K × V)) (k : K) (v : V) (hs : SMap.Sorted m) :
    (SMap.insert m k v).length = if (SMap.lookup m k).isSome then m.length else m.length + 1 := by
  induction m with
  | nil => simp [SMap.lookup, SMap.insert]
  | cons a m ih =>
    obtain ⟨ak, av⟩ := a
    have hs' := List.pairwise_cons.1 hs
    simp only [SMap.insert]
    by_cases h1 : ord k < ord ak
    · have e : (ord ak == ord k) = false := by simp; omega
      have hn : SMap.lookup m k = none := by
        simp only [SMap.lookup, List.find?_eq_none]
        intro p hp; have := hs'.1 p hp; simp at this ⊢; omega
      simp only [SMap.lookup] at hn
      simp [h1, SMap.lookup, List.find?_cons, e, hn]
    · by_cases h2 : ord k = ord ak
      · have e : (ord ak == ord k) = true := by simp [h2]
        simp [h1, h2, SMap.lookup, List.find?_cons]
      · have e : (ord ak == ord k) = false := by simp; omega
        simp only [h1, h2, if_false, List.length_cons, ih hs'.2, SMap.lookup, List.find?_cons, e]
        split <;> rename_i hh <;> simp [hh]

theorem length_erase (m : List (K × V)) (k : K) :
    (SMap.erase m k).length = if (SMap.lookup m k).isSome then m.length - 1 else m.length := by
  induction m with
  | nil => simp [SMap.lookup, SMap.erase]
  | cons a m ih =>
    obtain ⟨ak, av⟩ := a
    simp only [SMap.erase]
    by_cases h1 : ord ak = ord k
    · have e : (ord ak == ord k) = true := by simp [h1]
      simp [h1, SMap.lookup, List.find?_cons]
    · have e : (ord ak == ord k) = false := by simp [h1]
      simp only [h1, if_false, List.length_cons, ih, SMap.lookup, List.find?_cons, e]
      split
      · rename_i hh
        have : m.length ≠ 0 := by
          intro h0; have := List.eq_nil_of_length_eq_zero h0; subst this; simp at hh
        simp only [hh, if_true]; omega
      · rename_i hh
        simp [hh]
theorem lookup_adjust_ne (m : List (K × V)) (k j : K) (v : V) (hne : ord j ≠ ord k) :
    SMap.lookup (SMap.adjust m k v) j = SMap.lookup m j := by
  induction m with
  | nil => rfl
  | cons a m ih =>
    obtain ⟨ak, av⟩ := a
    simp only [SMap.adjust]
    split
    · rename_i h2
      have : (ord ak == ord j) = false := by simp; omega
      simp [SMap.lookup, List.find?_cons, this]
    · simp only [SMap.lookup, List.find?_cons] at ih ⊢
      rw [ih]

/-! ### non-vacuity: a concrete history (capacity 4) that splits leaves, grows a root, borrows, merges and collapses -/
example :
    (run (freshState 4 : RState Int Nat)
      ((List.range 12).map (fun i => Op.insert (Int.ofNat i) i) ++ (List.range 11).map (fun i => Op.remove (Int.ofNat i)) ++ [Op.len, Op.get 11])).map
      (fun outs => outs.length) = some 25 := by decide

/-- **The second life of a map is its first.**  After `clear()` the map is, field for field (root, arenas, free
    lists, height), the map `new(capacity)` returns; so every history that follows a `clear()` behaves — results,
    structure, slot numbers — exactly as the same history on a fresh map of that capacity.  (Rounds 4 and 5 of the
    seeded changes attacked this six times through `clear()` and the constructors: a root leaf with a different
    capacity field, a root that is not slot 0, a free list with duplicates, arenas that keep their slots.  The
    correspondence run sees each of them as a dump difference right after the `clear()`.) -/
theorem clear_is_new (s : RState K V) (hc : minCapacity ≤ s.cap) : some (clear s) = (new s.cap : Option (RState K V)) := by
  unfold new clear
  have : ¬ s.cap < minCapacity := by omega
  simp [this]

theorem history_after_clear (s : RState K V) (ops : List (Op K V)) :
    run (clear s) ops = run (freshState s.cap) ops := rfl

end BPT.Props.C01
