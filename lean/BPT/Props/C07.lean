import BPT.Py.ApiSpec
/-
  C07 — the pure-Python BPlusTreeMap behaves like `dict` for every call history.

  The specification is the sorted association list `abs s` (what a dict shows when
  iterated in key order) with `SMap.insert / erase / lookup`; `specStep` says what
  each call answers and how it changes the list.  `None` is just a value of `V`.
  Theorems are about the code with D6/D6b/D7/D8 repaired (`Cfg.repaired`; the
  switches are tied to the source in BPT/Generated/TiePy.lean).

  Partial, and said so: "len works for any number of entries" is a statement about the
  interpreter stack.  The model's `len` is a fold over the chain; the tie is
  `TiePy.py_len_iterative_eq` (the translator checks that `__len__` is a loop that
  calls no recursive helper) plus the 12 000-entry / thousands-of-leaves `len()`
  calls of the `py-deep` correspondence suite.
-/
namespace BPT.Props.C07
open BPT BPT.Py Tree

variable {K V : Type} [Keyed K]

/-- one call: same answer as the specification, never anything but KeyError, invariant kept -/
theorem step_refines (isNone : V → Bool) (s : PState K V) (op : Op K V) (hi : PInv s) :
    ∃ s', step Cfg.repaired isNone s op = .ok (s', (specStep (abs s) op).2) ∧ PInv s' ∧
      abs s' = (specStep (abs s) op).1 ∧ s'.cap = s.cap :=
  step_spec isNone s op hi

/-- a history on the model -/
def run (isNone : V → Bool) : PState K V → List (Op K V) → Res (PState K V × List (Out K V))
  | s, [] => .ok (s, [])
  | s, op :: ops => (step Cfg.repaired isNone s op).bind fun r => (run isNone r.1 ops).map fun q => (q.1, r.2 :: q.2)

/-- the same history on the specification -/
def specRun : List (K × V) → List (Op K V) → List (K × V) × List (Out K V)
  | m, [] => (m, [])
  | m, op :: ops => ((specRun (specStep m op).1 ops).1, (specStep m op).2 :: (specRun (specStep m op).1 ops).2)

theorem run_refines (isNone : V → Bool) (ops : List (Op K V)) : ∀ (s : PState K V), PInv s →
    ∃ s', run isNone s ops = .ok (s', (specRun (abs s) ops).2) ∧ PInv s' ∧ abs s' = (specRun (abs s) ops).1 := by
  induction ops with
  | nil => intro s hi; exact ⟨s, rfl, hi, rfl⟩
  | cons op ops ih =>
    intro s hi
    obtain ⟨s1, he, hi1, ha1, _⟩ := step_refines isNone s op hi
    obtain ⟨s', h1, h2, h3⟩ := ih s1 hi1
    refine ⟨s', ?_, h2, ?_⟩
    · simp only [run, he, Res.bind_ok, h1, Res.map_ok, specRun, ha1]
    · simp only [specRun]; rw [← ha1]; exact h3

/-- **C07**: for every capacity ≥ 4 and every finite call history, the map answers exactly what the
    reference answers (results and KeyErrors), raises nothing else, and ends in a valid state -/
theorem refines_dict (isNone : V → Bool) (cap : Nat) (hcap : 4 ≤ cap) (ops : List (Op K V)) :
    ∃ s0 s', (new cap : Option (PState K V)) = some s0 ∧
      run isNone s0 ops = .ok (s', (specRun [] ops).2) ∧ PInv s' ∧ abs s' = (specRun [] ops).1 := by
  obtain ⟨s0, h0, hinv0, habs0, _⟩ := pinv_new (K := K) (V := V) cap hcap
  obtain ⟨s', h1, h2, h3⟩ := run_refines isNone ops s0 hinv0
  rw [habs0] at h1 h3
  exact ⟨s0, s', h0, h1, h2, h3⟩

/-- capacities below 4 are rejected (`InvalidCapacityError`), all others accepted -/
theorem capacity_guard (cap : Nat) : (new cap : Option (PState K V)) = none ↔ cap < 4 := new_rejects cap

/-- `get` returns the default only for absent keys: a stored value is returned whatever it is
    (in particular when `isNone` says it is `None`) -/
theorem get_returns_stored (isNone : V → Bool) (s : PState K V) (hi : PInv s) (k : K) (d : V) (p : K × V)
    (hp : SMap.lookup (abs s) k = some p) : get Cfg.repaired isNone s k d = some p.2 := by
  rw [get_spec isNone s hi k d, hp]

theorem get_default_iff_absent (isNone : V → Bool) (s : PState K V) (hi : PInv s) (k : K) (d : V)
    (hp : SMap.lookup (abs s) k = none) : get Cfg.repaired isNone s k d = some d := by
  rw [get_spec isNone s hi k d, hp]

/-- `popitem` removes the entry with the smallest key -/
theorem popitem_removes_smallest (s : PState K V) (hi : PInv s) (p : K × V) (rest : List (K × V))
    (hm : abs s = p :: rest) :
    (specStep (abs s) (.popitem : Op K V)) = (rest, .item p.1 p.2) ∧ ∀ q ∈ rest, ord p.1 < ord q.1 := by
  refine ⟨by rw [hm]; rfl, ?_⟩
  have := abs_sorted s hi
  rw [hm] at this
  exact (List.pairwise_cons.1 this).1

/-! the reference dict is a map: a deleted key is gone, `len` moves by one exactly when the key set changes -/
/-- after `del m[k]` / `pop(k)` the key is absent (a sorted map holds a key at most once) -/
theorem deleted_key_absent (m : List (K × V)) (k : K) (hs : SMap.Sorted m) : SMap.lookup (SMap.erase m k) k = none := by
  induction m with
  | nil => simp [SMap.lookup, SMap.erase]
  | cons a m ih =>
    obtain ⟨ak, av⟩ := a
    have hs' := List.pairwise_cons.1 hs
    simp only [SMap.erase]
    by_cases h1 : ord ak = ord k
    · simp only [h1, if_true]
      simp only [SMap.lookup, List.find?_eq_none]
      intro p hp
      have := hs'.1 p hp
      simp at this ⊢; omega
    · have e : (ord ak == ord k) = false := by simp [h1]
      simp only [h1, if_false, SMap.lookup, List.find?_cons, e]
      exact ih hs'.2

/-- `len` moves by exactly one when, and only when, the key set changes -/
theorem len_after_assign (m : List (K × V)) (k : K) (v : V) (hs : SMap.Sorted m) :
    (SMap.insert m k v).length = if (SMap.lookup m k).isSome then m.length else m.length + 1 := by
  induction m with
  | nil => simp [SMap.lookup, SMap.insert]
  | cons a m ih =>
    obtain ⟨ak, av⟩ := a
    have hs' := List.pairwise_cons.1 hs
    simp only [SMap.insert]
    by_cases h1 : ord k < ord ak
    · have e : (ord ak == ord k) = false := by simp; omega
      have hn : SMap.lookup m k = none := by
        simp only [SMap.lookup, List.find?_eq_none]
        intro p hp; have := hs'.1 p hp; simp at this ⊢; omega
      simp only [SMap.lookup] at hn
      simp [h1, SMap.lookup, List.find?_cons, e, hn]
    · by_cases h2 : ord k = ord ak
      · have e : (ord ak == ord k) = true := by simp [h2]
        simp [h1, h2, SMap.lookup, List.find?_cons]
      · have e : (ord ak == ord k) = false := by simp; omega
        simp only [h1, h2, if_false, List.length_cons, ih hs'.2, SMap.lookup, List.find?_cons, e]
        split <;> rename_i hh <;> simp [hh]

theorem len_after_delete (m : List (K × V)) (k : K) :
    (SMap.erase m k).length = if (SMap.lookup m k).isSome then m.length - 1 else m.length := by
  induction m with
  | nil => simp [SMap.lookup, SMap.erase]
  | cons a m ih =>
    obtain ⟨ak, av⟩ := a
    simp only [SMap.erase]
    by_cases h1 : ord ak = ord k
    · have e : (ord ak == ord k) = true := by simp [h1]
      simp [h1, SMap.lookup, List.find?_cons]
    · have e : (ord ak == ord k) = false := by simp [h1]
      simp only [h1, if_false, List.length_cons, ih, SMap.lookup, List.find?_cons, e]
      split
      · rename_i hh
        have : m.length ≠ 0 := by
          intro h0; have := List.eq_nil_of_length_eq_zero h0; subst this; simp at hh
        simp only [hh, if_true]; omega
      · rename_i hh
        simp [hh]
/-- the entry list is strictly ascending, so keys are unique and `lookup` is well defined -/
theorem abs_strictly_ascending (s : PState K V) (hi : PInv s) : SMap.Sorted (abs s) := abs_sorted s hi

/-- a copy has the same contents and capacity (the model is purely functional, so the original state
    is a different value that later calls on the copy cannot change; aliasing of the real objects is
    checked by the harness) -/
theorem copy_same_contents (isNone : V → Bool) (s : PState K V) (hi : PInv s) :
    ∃ s', step Cfg.repaired isNone s (.copy : Op K V) = .ok (s', .unit) ∧ PInv s' ∧ abs s' = abs s ∧ s'.cap = s.cap :=
  step_refines isNone s .copy hi

namespace Legacy
/-- D6 on the pre-repair model: a stored `None` makes `get(key, default)` return the default -/
theorem get_none_returns_default :
    let s : PState Int (Option Nat) := { cap := 4, height := 0, root := ({ id := 1, keys := [1], vals := [none], next := 0 } : Leaf Int (Option Nat)), head := 1, nextId := 2 }
    get { getChecksPresence := false } (fun v => v.isNone) s 1 (some 7) = some (some 7) ∧
    get Cfg.repaired (fun v => v.isNone) s 1 (some 7) = some none := by
  decide
end Legacy

/-- non-vacuity: a concrete history through a leaf split, a deletion and the derived calls -/
example : ∃ s0 s', (new 4 : Option (PState Int Nat)) = some s0 ∧
    run (fun _ => false) s0 [.set 1 10, .set 2 20, .set 3 30, .set 4 40, .set 5 50, .del 2, .popitem, .len] =
      .ok (s', [.unit, .unit, .unit, .unit, .unit, .unit, .item 1 10, .nat 3]) := by
  obtain ⟨s0, s', h0, h1, _, _⟩ := refines_dict (K := Int) (V := Nat) (fun _ => false) 4 (by omega)
    [.set 1 10, .set 2 20, .set 3 30, .set 4 40, .set 5 50, .del 2, .popitem, .len]
  refine ⟨s0, s', h0, ?_⟩
  rw [h1]
  rfl

end BPT.Props.C07
