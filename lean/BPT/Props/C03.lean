import BPT.Rust.Range
import BPT.Props.C02
/-
  C03 — Rust range queries return exactly the entries inside the bounds.

  All 9 combinations of bound kinds are one statement (`Bound K` has three
  constructors on each side); endpoints present or absent, below the minimum or
  above the maximum, empty and inverted intervals are all just values of `lo`, `hi`.
  The result is always `.ok …` — never a panic.
-/
namespace BPT.Props.C03
open BPT BPT.Rust RawMap

variable {K V : Type} [Keyed K]

/-- **range(lo, hi)** yields exactly the entries whose keys satisfy both bounds, in the (ascending) order of the abstraction -/
theorem range_eq_filter (s : RState K V) (lo hi : Bound K) (hs : SInv s) (hsm : Small s) :
    (view s).range Cfg.repaired lo hi = .ok ((abs s).filter (fun p => inBounds lo hi p.1)) :=
  view_range s lo hi hs hsm

/-- an empty or inverted interval yields nothing, without panicking -/
theorem empty_or_inverted_is_empty (s : RState K V) (lo hi : Bound K) (hs : SInv s) (hsm : Small s)
    (hempty : ∀ k : K, inBounds lo hi k = false) : (view s).range Cfg.repaired lo hi = .ok [] := by
  rw [range_eq_filter s lo hi hs hsm]
  congr 1
  rw [List.filter_eq_nil_iff]
  intro p _; simp [hempty p.1]

/-- `items_range(start, end)` is the half-open range `[start, end)`, `None` meaning unbounded -/
theorem items_range_eq (s : RState K V) (a b : Option K) (hs : SInv s) (hsm : Small s) :
    (view s).itemsRange Cfg.repaired a b = .ok ((abs s).filter (fun p =>
      (match a with | some x => decide (ord x ≤ ord p.1) | none => true) &&
      (match b with | some y => decide (ord p.1 < ord y) | none => true))) := by
  unfold RawMap.itemsRange
  rw [view_range s _ _ hs hsm]
  congr 1
  apply List.filter_congr
  intro p _
  cases a <;> cases b <;> simp [inBounds, loOK, upOK]

/-- membership form: an entry is yielded iff it is stored and its key satisfies both bounds; the yielded list is
    strictly ascending (so every entry comes once) -/
theorem mem_range_iff (s : RState K V) (lo hi : Bound K) (hs : SInv s) (hsm : Small s) :
    ∃ out, (view s).range Cfg.repaired lo hi = .ok out ∧ SMap.Sorted out ∧
      ∀ p, p ∈ out ↔ p ∈ abs s ∧ inBounds lo hi p.1 = true := by
  refine ⟨_, range_eq_filter s lo hi hs hsm, ?_, ?_⟩
  · exact List.Pairwise.filter _ (toList_sorted s.height s.root none none hs.inv.ord)
  · intro p; simp [List.mem_filter]

/-- the fully unbounded range is the whole map -/
theorem range_unbounded_all (s : RState K V) (hs : SInv s) (hsm : Small s) :
    (view s).range Cfg.repaired .unbounded .unbounded = .ok (abs s) := by
  rw [range_eq_filter s _ _ hs hsm]
  congr 1
  simp [inBounds, loOK, upOK]

/-- cutting an interval at any key `m` loses and duplicates nothing: `[lo, m)` followed by `[m, hi]` is `[lo, hi]` -/
theorem range_split (s : RState K V) (lo hi : Bound K) (m : K) (hs : SInv s) (hsm : Small s) :
    ∃ l r w, (view s).range Cfg.repaired lo (.excluded m) = .ok l ∧
      (view s).range Cfg.repaired (.included m) hi = .ok r ∧
      (view s).range Cfg.repaired lo hi = .ok w ∧
      (∀ p, p ∈ w ↔ (p ∈ l ∧ upOK hi p.1 = true) ∨ (p ∈ r ∧ loOK lo p.1 = true)) := by
  refine ⟨_, _, _, range_eq_filter s _ _ hs hsm, range_eq_filter s _ _ hs hsm, range_eq_filter s _ _ hs hsm, ?_⟩
  intro p
  simp only [List.mem_filter, inBounds, loOK, upOK, Bool.and_eq_true, decide_eq_true_eq]
  constructor
  · rintro ⟨hm, h1, h2⟩
    by_cases h : ord p.1 < ord m
    · exact Or.inl ⟨⟨hm, h1, h⟩, h2⟩
    · exact Or.inr ⟨⟨hm, by omega, h2⟩, h1⟩
  · rintro (⟨⟨hm, h1, _⟩, h2⟩ | ⟨⟨hm, _, h2⟩, h1⟩)
    · exact ⟨hm, h1, h2⟩
    · exact ⟨hm, h1, h2⟩
/-- an `ItemIterator` started at the position of `start` with an explicit (borrowed) end bound honours
    that bound's inclusiveness -/
theorem items_from_key_eq (s : RState K V) (start : K) (e : Bound K) (hs : SInv s) (hsm : Small s) :
    (view s).itemsFromKey Cfg.repaired start e = .ok ((abs s).filter (fun p => inBounds (.included start) e p.1)) := by
  obtain ⟨l, n, hfind, hget, hsl, hlens, hf, hpos, T, hfil, hT⟩ := view_pos_at_key s start hs hsm
  have habs_sorted := toList_sorted s.height s.root none none hs.inv.ord
  unfold RawMap.itemsFromKey
  rw [hfind]
  simp only [Res.bind_ok]
  have hst : ∃ ek ei, itemsFrom (view s) l.id (lowerBound l.keys start) e =
      ({ leaf := some (leafToRaw s.cap l), idx := lowerBound l.keys start, endKey := ek, endBound := none, endIncl := ei } : ItState K V) ∧
      ∀ k, (! beyondEnd Cfg.repaired ({ leaf := some (leafToRaw s.cap l), idx := lowerBound l.keys start, endKey := ek, endBound := none, endIncl := ei } : ItState K V) k) = upOK e k := by
    cases e with
    | included b =>
      refine ⟨some b, true, by simp [itemsFrom, hget], ?_⟩
      intro k
      simp only [beyondEnd, upOK, Cfg.repaired, and_self, if_true]
      by_cases h : ord k ≤ ord b
      · have : ¬ ord k > ord b := by omega
        simp [h, this]
      · have : ord k > ord b := by omega
        simp [h, this]
    | excluded b =>
      refine ⟨some b, false, by simp [itemsFrom, hget], ?_⟩
      intro k
      simp only [beyondEnd, upOK, Cfg.repaired, Bool.false_eq_true, and_false, if_false]
      by_cases h : ord k < ord b
      · have : ¬ ord k ≥ ord b := by omega
        simp [h, this]
      · have : ord k ≥ ord b := by omega
        simp [h, this]
    | unbounded =>
      exact ⟨none, false, by simp [itemsFrom, hget], by intro k; simp [beyondEnd, upOK]⟩
  obtain ⟨ek, ei, hst, hup⟩ := hst
  rw [hst]
  have hfun : (fun (kv : K × V) => ! beyondEnd Cfg.repaired ({ leaf := some (leafToRaw s.cap l), idx := lowerBound l.keys start, endKey := ek, endBound := none, endIncl := ei } : ItState K V) kv.1) =
      fun kv => upOK e kv.1 := by funext kv; exact hup kv.1
  have hR : SMap.Sorted ((abs s).filter (fun p => decide (ord start ≤ ord p.1))) := sorted_filter _ _ habs_sorted
  rw [drain_pos Cfg.repaired (view s) s.cap _ _ _ _ n (hpos ek none ei) hf
    (Nat.lt_of_le_of_lt (takeWhile_length_le _ _) (Nat.lt_of_le_of_lt (List.length_filter_le _ _) (itemBound_ok s hs hsm))), hfun]
  congr 1
  rw [takeWhile_eq_filter_sorted _ _ hR (fun a b hab h => upOK_down e a b hab h), List.filter_filter]
  apply List.filter_congr
  intro p _
  simp [inBounds, loOK, Bool.and_comm]

/-! ### the defects that were repaired (D1, D2), proved wrong on their witnesses on the pre-repair reader model -/

/-- capacity 4, keys 1,3,…,15 -/
def witness : Option (RState Int Nat) :=
  [1, 3, 5, 7, 9, 11, 13, 15].foldl (fun acc k => acc.bind fun s => (insert s (k : Int) (k.toNat)).map (·.1)) (some (freshState 4))

/-- D1 (as found): `range((Excluded(6), Unbounded))` drops 7, the first key above the absent excluded bound -/
theorem Legacy.range_excluded_absent_drops_first :
    (witness.map fun s => (view s).range { skipOnlyMatched := false } (.excluded 6) .unbounded) =
      some (.ok [(9, 9), (11, 11), (13, 13), (15, 15)]) ∧
    (witness.map fun s => (view s).range Cfg.repaired (.excluded 6) .unbounded) =
      some (.ok [(7, 7), (9, 9), (11, 11), (13, 13), (15, 15)]) := by decide

/-- D2 (as found): an iterator started at the position of 3 with the borrowed bound `Included(7)` stops before 7 -/
theorem Legacy.included_end_key_ignored :
    (witness.map fun s => (view s).itemsFromKey { honourEndIncl := false } 3 (.included 7)) = some (.ok [(3, 3), (5, 5)]) ∧
    (witness.map fun s => (view s).itemsFromKey Cfg.repaired 3 (.included 7)) = some (.ok [(3, 3), (5, 5), (7, 7)]) := by decide

/-- non-vacuity: the range theorems at a concrete three-level state reached through splits, borrows and merges
    (`C02.demo_state`), with an excluded bound on a present key and an included bound beyond the maximum -/
example : ∃ s : RState Int Nat, s.height = 2 ∧
    (view s).range Cfg.repaired (.excluded 12) (.included 100) =
      .ok ((abs s).filter (fun p => inBounds (.excluded (12 : Int)) (.included (100 : Int)) p.1)) := by
  obtain ⟨s, hs, hsm, hh, _, _⟩ := C02.demo_state
  exact ⟨s, hh, range_eq_filter s _ _ hs hsm⟩

end BPT.Props.C03
