import BPT.Arena.Proofs
/-
  C16 — CompactArena handles stay valid and unique until they are released.

  Statements only; the work is in `BPT/Arena/Proofs.lean`.  The machine below is
  the arena API as a step function over operation histories; `Spec` is the
  obvious reference (a partial map from handles to items, here a function).
-/
namespace BPT.Props.C16
open BPT BPT.Arena

variable {T : Type}

/-- one call of the arena API -/
inductive Op (T : Type) where
  | allocate (x : T)
  | deallocate (id : Nat)            -- `deallocate` and `deallocate_with_default`
  | deallocateNoReturn (id : Nat)
  | get (id : Nat)                   -- also the read half of `get_mut`
  | write (id : Nat) (x : T)         -- store through `get_mut`
  | contains (id : Nat)
  | counts                           -- len / allocated_count / is_empty / free_count / stats
  | clear
  | compact

inductive Out (T : Type) where
  | handle (id : Nat)
  | item (o : Option T)
  | flag (b : Bool)
  | counts (len free : Nat) (empty : Bool)
  | unit

def step (dflt : T) (a : Arena T) : Op T → Res (Arena T × Out T)
  | .allocate x => (a.allocate x).map (fun r => (r.2, .handle r.1))
  | .deallocate id => (a.deallocate dflt id).map (fun r => (r.2, .item r.1))
  | .deallocateNoReturn id => .ok ((a.deallocateNoReturn id).2, .flag (a.deallocateNoReturn id).1)
  | .get id => .ok (a, .item (a.get id))
  | .write id x => .ok (a.modify id (fun _ => x), .item (a.get id))
  | .contains id => .ok (a, .flag (a.contains id))
  | .counts => .ok (a, .counts a.len a.freeCount a.isEmpty)
  | .clear => .ok (a.clear, .unit)
  | .compact => .ok (a.compact, .unit)

def run (dflt : T) : Arena T → List (Op T) → Res (Arena T × List (Out T))
  | a, [] => .ok (a, [])
  | a, op :: ops => (step dflt a op).bind fun r => (run dflt r.1 ops).map fun r' => (r'.1, r.2 :: r'.2)

/-- The reference semantics of one call, on the partial map `g : handle → item`
    (`g' ` after the call).  `compact` renumbers handles, so it is specified on
    the list of live items instead (see `compact_keeps_live`). -/
def SpecStep (g : Nat → Option T) : Op T → Out T → (Nat → Option T) → Prop
  | .allocate x, .handle id, g' => id ≠ nullId ∧ g id = none ∧ g' id = some x ∧ ∀ j, j ≠ id → g' j = g j
  | .deallocate id, .item o, g' => o = g id ∧ g' id = none ∧ ∀ j, j ≠ id → g' j = g j
  | .deallocateNoReturn id, .flag b, g' => b = (g id).isSome ∧ g' id = none ∧ ∀ j, j ≠ id → g' j = g j
  | .get id, .item o, g' => o = g id ∧ g' = g
  | .write id x, .item o, g' => o = g id ∧ g' id = (g id).map (fun _ => x) ∧ ∀ j, j ≠ id → g' j = g j
  | .contains id, .flag b, g' => b = (g id).isSome ∧ g' = g
  | .counts, .counts _ _ _, g' => g' = g
  | .clear, .unit, g' => ∀ j, g' j = none
  | .compact, .unit, _ => True
  | _, _, _ => False

/-- **Step theorem.** On a well-formed arena every call that returns behaves as
    the reference map says, keeps the arena well-formed, and reports counters
    that are exactly the numbers of live and of released-but-reusable slots. -/
theorem step_refines (dflt : T) (a a' : Arena T) (op : Op T) (out : Out T) (h : AInv a)
    (hs : step dflt a op = .ok (a', out)) :
    AInv a' ∧ SpecStep a.get op out a'.get ∧ a'.len + a'.freeCount = a'.storage.length := by
  have fin : ∀ b : Arena T, AInv b → b.len + b.freeCount = b.storage.length := fun b hb => (counters b hb).1
  cases op with
  | allocate x =>
    simp only [step] at hs
    cases he : a.allocate x with
    | ok r =>
      obtain ⟨id, a1⟩ := r
      simp only [he, Res.map_ok, Res.ok.injEq, Prod.mk.injEq] at hs
      obtain ⟨rfl, rfl⟩ := hs
      have := allocate_spec a h x id a1 he
      exact ⟨this.1, ⟨this.2.1, this.2.2.1, this.2.2.2.1, this.2.2.2.2.1⟩, fin _ this.1⟩
    | panic => simp [he, Res.map] at hs
    | diverge => simp [he, Res.map] at hs
    | ub => simp [he, Res.map] at hs
  | deallocate id =>
    simp only [step] at hs
    cases hg : a.get id with
    | none =>
      rw [deallocate_dead dflt a h id hg] at hs
      simp only [Res.map_ok, Res.ok.injEq, Prod.mk.injEq] at hs
      obtain ⟨rfl, rfl⟩ := hs
      exact ⟨h, ⟨hg.symm, hg, fun _ _ => rfl⟩, fin _ h⟩
    | some x =>
      obtain ⟨a1, he, hinv, h1, h2, _⟩ := deallocate_live dflt a h id x hg
      rw [he] at hs
      simp only [Res.map_ok, Res.ok.injEq, Prod.mk.injEq] at hs
      obtain ⟨rfl, rfl⟩ := hs
      exact ⟨hinv, ⟨hg.symm, h1, h2⟩, fin _ hinv⟩
  | deallocateNoReturn id =>
    simp only [step, Res.ok.injEq, Prod.mk.injEq] at hs
    obtain ⟨rfl, rfl⟩ := hs
    cases hg : a.get id with
    | none =>
      rw [deallocateNoReturn_dead a h id hg]
      exact ⟨h, ⟨by simp [hg], hg, fun _ _ => rfl⟩, fin _ h⟩
    | some x =>
      obtain ⟨a1, he, hinv, h1, h2, _⟩ := deallocateNoReturn_live a h id x hg
      rw [he]
      exact ⟨hinv, ⟨by simp [hg], h1, h2⟩, fin _ hinv⟩
  | get id =>
    simp only [step, Res.ok.injEq, Prod.mk.injEq] at hs
    obtain ⟨rfl, rfl⟩ := hs
    exact ⟨h, ⟨rfl, rfl⟩, fin _ h⟩
  | write id x =>
    simp only [step, Res.ok.injEq, Prod.mk.injEq] at hs
    obtain ⟨rfl, rfl⟩ := hs
    have := modify_spec a h id (fun _ => x)
    exact ⟨this.1, ⟨rfl, this.2.1, this.2.2.1⟩, fin _ this.1⟩
  | contains id =>
    simp only [step, Res.ok.injEq, Prod.mk.injEq] at hs
    obtain ⟨rfl, rfl⟩ := hs
    exact ⟨h, ⟨contains_eq a h id, rfl⟩, fin _ h⟩
  | counts =>
    simp only [step, Res.ok.injEq, Prod.mk.injEq] at hs
    obtain ⟨rfl, rfl⟩ := hs
    exact ⟨h, rfl, fin _ h⟩
  | clear =>
    simp only [step, Res.ok.injEq, Prod.mk.injEq] at hs
    obtain ⟨rfl, rfl⟩ := hs
    have := clear_spec a
    exact ⟨this.1, this.2.1, fin _ this.1⟩
  | compact =>
    simp only [step, Res.ok.injEq, Prod.mk.injEq] at hs
    obtain ⟨rfl, rfl⟩ := hs
    have := compact_spec a h
    exact ⟨this.1, trivial, fin _ this.1⟩

/-- **Every reachable arena is well-formed** (any history from `CompactArena::new()`). -/
theorem reachable_inv (dflt : T) (ops : List (Op T)) :
    ∀ (a a' : Arena T) (outs : List (Out T)), AInv a → run dflt a ops = .ok (a', outs) → AInv a' := by
  induction ops with
  | nil => intro a a' outs h hr; simp only [run, Res.ok.injEq, Prod.mk.injEq] at hr; exact hr.1 ▸ h
  | cons op ops ih =>
    intro a a' outs h hr
    simp only [run] at hr
    cases hs : step dflt a op with
    | ok r =>
      rw [hs] at hr
      simp only [Res.bind_ok] at hr
      cases hr2 : run dflt r.1 ops with
      | ok r' =>
        rw [hr2] at hr
        simp only [Res.map_ok, Res.ok.injEq, Prod.mk.injEq] at hr
        have h1 := (step_refines dflt a r.1 op r.2 h (by rw [hs])).1
        exact hr.1 ▸ ih r.1 r'.1 r'.2 h1 (by rw [hr2])
      | panic => rw [hr2] at hr; simp [Res.map] at hr
      | diverge => rw [hr2] at hr; simp [Res.map] at hr
      | ub => rw [hr2] at hr; simp [Res.map] at hr
    | panic => rw [hs] at hr; simp at hr
    | diverge => rw [hs] at hr; simp at hr
    | ub => rw [hs] at hr; simp at hr

theorem reachable_from_new (dflt : T) (ops : List (Op T)) (a' : Arena T) (outs : List (Out T))
    (hr : run dflt Arena.empty ops = .ok (a', outs)) : AInv a' :=
  reachable_inv dflt ops _ _ _ ainv_empty hr

/-- `allocate` is the only call that can fail, and only when 2³²−1 slots are all live. -/
theorem step_ok (dflt : T) (a : Arena T) (op : Op T) (h : AInv a)
    (hroom : a.free ≠ [] ∨ a.storage.length < nullId) : ∃ r, step dflt a op = .ok r := by
  cases op with
  | allocate x =>
    obtain ⟨id, a', he⟩ := allocate_ok a h x hroom
    exact ⟨(a', .handle id), by simp [step, he]⟩
  | deallocate id =>
    cases hg : a.get id with
    | none => exact ⟨(a, .item none), by simp only [step, deallocate_dead dflt a h id hg, Res.map_ok]⟩
    | some x =>
      obtain ⟨a1, he, _⟩ := deallocate_live dflt a h id x hg
      exact ⟨(a1, .item (some x)), by simp only [step, he, Res.map_ok]⟩
  | deallocateNoReturn id => exact ⟨_, rfl⟩
  | get id => exact ⟨_, rfl⟩
  | write id x => exact ⟨_, rfl⟩
  | contains id => exact ⟨_, rfl⟩
  | counts => exact ⟨_, rfl⟩
  | clear => exact ⟨_, rfl⟩
  | compact => exact ⟨_, rfl⟩

/-- a handle returned by `allocate` is never null and never equal to a live handle -/
theorem allocate_fresh (a a' : Arena T) (h : AInv a) (x : T) (id : Nat) (he : a.allocate x = .ok (id, a')) :
    id ≠ nullId ∧ a.get id = none ∧ a'.get id = some x :=
  let s := allocate_spec a h x id a' he; ⟨s.2.1, s.2.2.1, s.2.2.2.1⟩

/-- `get` answers nothing for null and out-of-range handles -/
theorem get_other_none (a : Arena T) (id : Nat) (h : id = nullId ∨ a.storage.length ≤ id) : a.get id = none := by
  rcases h with rfl | h
  · exact get_null a
  · exact get_out_of_range a id h

/-- releasing yields the item exactly once: the second release fails and changes nothing -/
theorem release_once (dflt : T) (a : Arena T) (h : AInv a) (id : Nat) (x : T) (hg : a.get id = some x) :
    ∃ a1, a.deallocate dflt id = .ok (some x, a1) ∧ a1.deallocate dflt id = .ok (none, a1) ∧
      a1.deallocateNoReturn id = (false, a1) := by
  obtain ⟨a1, he, hinv, hnone, _⟩ := deallocate_live dflt a h id x hg
  exact ⟨a1, he, deallocate_dead dflt a1 hinv id hnone, deallocateNoReturn_dead a1 hinv id hnone⟩

/-- **A release interrupted by a panic of `T::default()`.**  `deallocate` / `deallocate_with_default` clear the mask
    bit and push the index *before* `mem::take` builds the default item, so a panic there (caught by the caller)
    leaves exactly what `deallocate_no_return` leaves: a well-formed arena in which the handle is released once,
    every other handle answers as before and the counters moved by one — never a slot that is both live and on the
    free list.  (The order of those three steps is what the `faultd` lines of the correspondence run check on the
    real arena with an item type whose `default()` panics on demand.) -/
theorem release_interrupted_by_default_panic (a : Arena T) (h : AInv a) (id : Nat) (x : T) (hg : a.get id = some x) :
    ∃ a', a.deallocateNoReturn id = (true, a') ∧ AInv a' ∧ a'.get id = none ∧
      (∀ j, j ≠ id → a'.get j = a.get j) ∧ a'.len + 1 = a.len ∧ a'.freeCount = a.freeCount + 1 :=
  deallocateNoReturn_live a h id x hg

/-- `len` is the number of handles for which `get` answers; `free_count` the rest of the slots -/
theorem counters_exact (a : Arena T) (h : AInv a) :
    a.len = ((List.range a.storage.length).filter (fun i => (a.get i).isSome)).length ∧
    a.freeCount = a.storage.length - a.len ∧ a.isEmpty = (a.len == 0) := by
  refine ⟨len_eq_live_handles a h, ?_, rfl⟩
  have := (counters a h).1; omega

theorem clear_invalidates_all (a : Arena T) : ∀ id, a.clear.get id = none := (clear_spec a).2.1

theorem compact_keeps_live (a : Arena T) (h : AInv a) :
    a.compact.liveItems = a.liveItems ∧ a.compact.len = a.len ∧ AInv a.compact :=
  let s := compact_spec a h; ⟨s.2.1, s.2.2.1, s.1⟩

/-- what `compact` does to handles: afterwards the live handles are exactly `0 .. len-1`, handle `i` holding the
    `i`-th live item in old slot order (the old numbering is not kept: the real code computes an index mapping and
    discards it), and nothing is left to reuse -/
theorem compact_handles_dense (a : Arena T) (h : AInv a) (i : Nat) :
    a.compact.get i = a.liveItems[i]? ∧ a.compact.freeCount = 0 ∧ a.compact.storage.length = a.len := by
  have hc := compact_spec a h
  refine ⟨?_, hc.2.2.2, by simp only [compact]; exact liveItems_length a h⟩
  cases hx : a.liveItems[i]? with
  | none =>
    apply get_out_of_range
    simp only [compact]
    exact List.getElem?_eq_none_iff.mp hx
  | some x =>
    rw [get_eq_some_iff _ hc.1]
    simp [compact, hx]

/-- freed slots are reused before the arena grows (used by C06) -/
theorem allocate_reuses (a a' : Arena T) (h : AInv a) (x : T) (id : Nat) (he : a.allocate x = .ok (id, a'))
    (hf : a.free ≠ []) : a'.storage.length = a.storage.length := by
  have := (allocate_spec a h x id a' he).2.2.2.2.2.2
  simpa [hf] using this

/-! ### the refinement along whole histories -/

/-- the reference machine (a partial map from handles to items) run along a history:
    `SpecRun g ops outs g'` says the calls `ops` answered `outs` one by one as `SpecStep` allows,
    starting from the map `g` and ending in `g'` -/
def SpecRun : (Nat → Option T) → List (Op T) → List (Out T) → (Nat → Option T) → Prop
  | g, [], [], g' => g' = g
  | g, op :: ops, out :: outs, g' => ∃ g1, SpecStep g op out g1 ∧ SpecRun g1 ops outs g'
  | _, _, _, _ => False

/-- **History theorem.** Every history of arena calls that returns, from any well-formed arena, answered call by
    call exactly as the reference map answers (one output per call), and what `get` says of the final arena is the
    reference map's final state. -/
theorem run_refines (dflt : T) (ops : List (Op T)) :
    ∀ (a a' : Arena T) (outs : List (Out T)), AInv a → run dflt a ops = .ok (a', outs) →
      SpecRun a.get ops outs a'.get := by
  induction ops with
  | nil =>
    intro a a' outs h hr
    simp only [run, Res.ok.injEq, Prod.mk.injEq] at hr
    obtain ⟨rfl, rfl⟩ := hr
    simp [SpecRun]
  | cons op ops ih =>
    intro a a' outs h hr
    simp only [run] at hr
    cases hs : step dflt a op with
    | ok r =>
      rw [hs] at hr
      simp only [Res.bind_ok] at hr
      cases hr2 : run dflt r.1 ops with
      | ok r' =>
        rw [hr2] at hr
        simp only [Res.map_ok, Res.ok.injEq, Prod.mk.injEq] at hr
        obtain ⟨rfl, rfl⟩ := hr
        have h1 := step_refines dflt a r.1 op r.2 h (by rw [hs])
        exact ⟨r.1.get, h1.2.1, ih r.1 r'.1 r'.2 h1.1 (by rw [hr2])⟩
      | panic => rw [hr2] at hr; simp [Res.map] at hr
      | diverge => rw [hr2] at hr; simp [Res.map] at hr
      | ub => rw [hr2] at hr; simp [Res.map] at hr
    | panic => rw [hs] at hr; simp at hr
    | diverge => rw [hs] at hr; simp at hr
    | ub => rw [hs] at hr; simp at hr

/-- the same from `CompactArena::new()`, whose reference map is empty -/
theorem history_from_new (dflt : T) (ops : List (Op T)) (a' : Arena T) (outs : List (Out T))
    (hr : run dflt Arena.empty ops = .ok (a', outs)) : SpecRun (fun _ => none) ops outs a'.get := by
  have := run_refines dflt ops _ _ _ ainv_empty hr
  have he : (Arena.empty : Arena T).get = fun _ => none := by
    funext id; exact get_out_of_range _ id (by simp [Arena.empty])
  rwa [he] at this

/-- a history that returns gives one output per call -/
theorem run_outputs_length (dflt : T) (ops : List (Op T)) :
    ∀ (a a' : Arena T) (outs : List (Out T)), run dflt a ops = .ok (a', outs) → outs.length = ops.length := by
  induction ops with
  | nil => intro a a' outs hr; simp only [run, Res.ok.injEq, Prod.mk.injEq] at hr; simp [← hr.2]
  | cons op ops ih =>
    intro a a' outs hr
    simp only [run] at hr
    cases hs : step dflt a op with
    | ok r =>
      rw [hs] at hr
      simp only [Res.bind_ok] at hr
      cases hr2 : run dflt r.1 ops with
      | ok r' =>
        rw [hr2] at hr
        simp only [Res.map_ok, Res.ok.injEq, Prod.mk.injEq] at hr
        simp [← hr.2, ih r.1 r'.1 r'.2 hr2]
      | panic => rw [hr2] at hr; simp [Res.map] at hr
      | diverge => rw [hr2] at hr; simp [Res.map] at hr
      | ub => rw [hr2] at hr; simp [Res.map] at hr
    | panic => rw [hs] at hr; simp at hr
    | diverge => rw [hs] at hr; simp at hr
    | ub => rw [hs] at hr; simp at hr

/-- **No handle is issued twice while live** (history form): if some call of a history hands out `id` and the
    calls after it neither release `id` nor clear or compact the arena, `id` still answers at the end — so, by
    `allocate_fresh`, no later `allocate` of that stretch can have returned it. -/
theorem live_handle_stays (dflt : T) (ops : List (Op T)) :
    ∀ (a a' : Arena T) (outs : List (Out T)) (id : Nat), AInv a → run dflt a ops = .ok (a', outs) →
      (a.get id).isSome →
      (∀ op ∈ ops, op ≠ .deallocate id ∧ op ≠ .deallocateNoReturn id ∧ op ≠ .clear ∧ op ≠ .compact) →
      (a'.get id).isSome := by
  intro a a' outs id h hr hl hops
  induction ops generalizing a outs with
  | nil => simp only [run, Res.ok.injEq, Prod.mk.injEq] at hr; exact hr.1 ▸ hl
  | cons op ops ih =>
    simp only [run] at hr
    cases hs : step dflt a op with
    | ok r =>
      rw [hs] at hr
      simp only [Res.bind_ok] at hr
      cases hr2 : run dflt r.1 ops with
      | ok r' =>
        rw [hr2] at hr
        simp only [Res.map_ok, Res.ok.injEq, Prod.mk.injEq] at hr
        have h1 := step_refines dflt a r.1 op r.2 h (by rw [hs])
        have hop := hops op (by simp)
        have hl1 : (r.1.get id).isSome := by
          have hsp := h1.2.1
          cases op with
          | allocate x =>
            cases ho : r.2 <;> rw [ho] at hsp <;> simp only [SpecStep] at hsp
            rename_i j
            by_cases hj : id = j
            · subst hj; rw [hsp.2.1] at hl; simp at hl
            · rw [hsp.2.2.2 id hj]; exact hl
          | deallocate j =>
            cases ho : r.2 <;> rw [ho] at hsp <;> simp only [SpecStep] at hsp
            have : id ≠ j := fun e => hop.1 (by rw [e])
            rw [hsp.2.2 id this]; exact hl
          | deallocateNoReturn j =>
            cases ho : r.2 <;> rw [ho] at hsp <;> simp only [SpecStep] at hsp
            have : id ≠ j := fun e => hop.2.1 (by rw [e])
            rw [hsp.2.2 id this]; exact hl
          | get j =>
            cases ho : r.2 <;> rw [ho] at hsp <;> simp only [SpecStep] at hsp
            rw [hsp.2]; exact hl
          | write j x =>
            cases ho : r.2 <;> rw [ho] at hsp <;> simp only [SpecStep] at hsp
            by_cases hj : id = j
            · subst hj; rw [hsp.2.1]; simpa using hl
            · rw [hsp.2.2 id hj]; exact hl
          | contains j =>
            cases ho : r.2 <;> rw [ho] at hsp <;> simp only [SpecStep] at hsp
            rw [hsp.2]; exact hl
          | counts =>
            cases ho : r.2 <;> rw [ho] at hsp <;> simp only [SpecStep] at hsp
            rw [hsp]; exact hl
          | clear => exact absurd rfl hop.2.2.1
          | compact => exact absurd rfl hop.2.2.2
        exact hr.1 ▸ ih r.1 r'.2 h1.1 (by rw [hr2, ← hr.1]) hl1 (fun o ho => hops o (by simp [ho]))
      | panic => rw [hr2] at hr; simp [Res.map] at hr
      | diverge => rw [hr2] at hr; simp [Res.map] at hr
      | ub => rw [hr2] at hr; simp [Res.map] at hr
    | panic => rw [hs] at hr; simp at hr
    | diverge => rw [hs] at hr; simp at hr
    | ub => rw [hs] at hr; simp at hr

/-- so an `allocate` after such a stretch of calls never returns `id` again -/
theorem no_reissue_while_live (dflt : T) (ops : List (Op T)) (a a1 a2 : Arena T) (outs : List (Out T)) (id id' : Nat)
    (x : T) (h : AInv a) (hr : run dflt a ops = .ok (a1, outs)) (hl : (a.get id).isSome)
    (hops : ∀ op ∈ ops, op ≠ .deallocate id ∧ op ≠ .deallocateNoReturn id ∧ op ≠ .clear ∧ op ≠ .compact)
    (he : a1.allocate x = .ok (id', a2)) : id' ≠ id := by
  have h1 := reachable_inv dflt ops a a1 outs h hr
  have hl1 := live_handle_stays dflt ops a a1 outs id h hr hl hops
  have hf := (allocate_fresh a1 a2 h1 x id' he).2.1
  intro e; subst e; rw [hf] at hl1; simp at hl1

/-- non-vacuity of the two statements above: handle 1 survives a stretch with reuse of slot 0, and the
    allocation after it returns 0, not 1 -/
example :
    (run 0 (Arena.empty : Arena Nat) [.allocate 5, .allocate 6, .deallocate 0, .write 1 7, .allocate 9, .get 1]).map
        (fun r => r.2) = .ok [.handle 0, .handle 1, .item (some 5), .item (some 6), .handle 0, .item (some 7)] := by
  rfl

/-! ### non-vacuity: a concrete history with reuse, double release and a dead handle -/
example :
    (run 0 (Arena.empty : Arena Nat)
      [.allocate 5, .allocate 6, .deallocate 0, .deallocate 0, .allocate 9, .get 0, .get 7, .counts]).map
        (fun r => r.1.storage) = .ok [9, 6] := by decide

/-! ### D5 (as found): without the "arena full" refusal the 2³²-th allocation hands out the null handle -/
theorem Legacy.allocate_returns_null (a : Arena T) (x : T) (hf : a.free = []) (hl : a.storage.length = nullId) :
    ∃ a', allocateL (nullId + 1) a x = .ok (nullId, a') := by
  simp [allocateL, hf, hl]

/-- repaired code: that allocation is refused -/
theorem allocate_full_refused (a : Arena T) (x : T) (hf : a.free = []) (hl : a.storage.length = nullId) :
    a.allocate x = .panic := by
  simp [allocate, allocateL, hf, hl]

end BPT.Props.C16
