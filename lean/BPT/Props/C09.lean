import BPT.Py.Bulk
/-
  C09 — the pure-Python tree keeps the B+ tree invariants after every mutation.

  `PInv` (BPT/Py/Top.lean) is the conjunction
  `ord`    — node keys strictly ascending; every branch has one more child than keys;
             every key of child i lies in [separator i-1, separator i);
  `sz`     — no leaf above `capacity` keys, no branch above `capacity - 1` (a branch splits as soon as it
             reaches `capacity`), every non-root node at least `(capacity-1)//2`, a branch root ≥ 1 key (≥ 2 children);
  `chain`/`head` — the `next` references of the leaves, in tree order, form a chain that starts at
             `self.leaves` and ends in `None`;
  `nodup`/`fresh` — leaf objects are pairwise distinct (model bookkeeping).
  "All leaves at the same depth" is intrinsic to the height-indexed tree type.
  The theorems are about the code with D8 repaired (`Cfg.repaired`, tied to the source by
  `TiePy.py_empty_shortcut_leaf_only_eq`).
-/
namespace BPT.Props.C09
open BPT BPT.Py Tree
open BPT.Rust (links ChainL firstOf)

variable {K V : Type} [Keyed K]

/-- the structural mutations: assignment, deletion, clear -/
inductive Mut (K V : Type) where
  | set (k : K) (v : V)
  | del (k : K)
  | clear

def applyMut (s : PState K V) : Mut K V → Option (PState K V)
  | .set k v => setitem s k v
  | .del k => (delitem Cfg.repaired s k).map (·.1)
  | .clear => some (clear s)

def specMut (m : List (K × V)) : Mut K V → List (K × V)
  | .set k v => SMap.insert m k v
  | .del k => SMap.erase m k
  | .clear => []

/-- one mutation never raises, keeps the invariant, and acts on the contents like the specification -/
theorem step_inv (s : PState K V) (op : Mut K V) (hi : PInv s) :
    ∃ s', applyMut s op = some s' ∧ PInv s' ∧ abs s' = specMut (abs s) op ∧ s'.cap = s.cap := by
  cases op with
  | set k v => exact setitem_spec s k v hi
  | del k =>
    obtain ⟨s', b, he, h1, h2, _, h4, _⟩ := delitem_spec s k hi
    exact ⟨s', by simp [applyMut, he], h1, h2, h4⟩
  | clear => exact ⟨_, rfl, (clear_spec s hi).1, (clear_spec s hi).2.1, (clear_spec s hi).2.2⟩

/-- every state reachable from `BPlusTreeMap(capacity)`, `capacity ≥ 4`, by any history of assignments,
    deletions and `clear` satisfies the invariants, and no call raises -/
theorem reachable_inv (cap : Nat) (hcap : 4 ≤ cap) (ops : List (Mut K V)) :
    ∃ s0 s', (new cap : Option (PState K V)) = some s0 ∧
      ops.foldl (fun acc op => acc.bind fun s => applyMut s op) (some s0) = some s' ∧ PInv s' ∧
      abs s' = ops.foldl specMut [] := by
  obtain ⟨s0, h0, hinv0, habs0, _⟩ := pinv_new (K := K) (V := V) cap hcap
  refine ⟨s0, ?_⟩
  suffices H : ∀ (ops : List (Mut K V)) (s : PState K V) (m : List (K × V)), PInv s → abs s = m →
      ∃ s', ops.foldl (fun acc op => acc.bind fun s => applyMut s op) (some s) = some s' ∧ PInv s' ∧
        abs s' = ops.foldl specMut m by
    obtain ⟨s', h1, h2, h3⟩ := H ops s0 [] hinv0 habs0
    exact ⟨s', h0, h1, h2, h3⟩
  intro ops
  induction ops with
  | nil => intro s m hi hm; exact ⟨s, rfl, hi, hm⟩
  | cons op ops ih =>
    intro s m hi hm
    obtain ⟨s1, he, hi1, ha1, _⟩ := step_inv s op hi
    obtain ⟨s', h1, h2, h3⟩ := ih s1 (specMut m op) hi1 (by rw [ha1, hm])
    refine ⟨s', ?_, h2, h3⟩
    simp only [List.foldl_cons, Option.bind_some, he]
    exact h1

/-- `InvalidCapacityError` exactly for capacities below 4 -/
theorem capacity_guard (cap : Nat) : (new cap : Option (PState K V)) = none ↔ cap < 4 := new_rejects cap

/-- depth of every leaf below a node at depth `d` -/
def leafDepths : (h : Nat) → Tree K V h → Nat → List Nat
  | 0, _, d => [d]
  | h+1, (b : Branch K (Tree K V h)), d => b.children.flatMap (fun c => leafDepths h c (d+1))

theorem all_leaves_same_depth : ∀ (h : Nat) (t : Tree K V h) (d : Nat), ∀ x ∈ leafDepths h t d, x = d + h := by
  intro h
  induction h with
  | zero => intro t d x hx; simp [leafDepths] at hx; omega
  | succ h ih =>
    intro t d x hx
    simp only [leafDepths, List.mem_flatMap] at hx
    obtain ⟨c, _, hx⟩ := hx
    have := ih c (d+1) x hx
    omega

/-- a branch root has at least two children -/
theorem root_branch_two_children (s : PState K V) (hi : PInv s) (h : Nat) (hh : s.height = h + 1) :
    2 ≤ (Branch.children (hh ▸ s.root : Tree K V (h+1))).length := by
  obtain ⟨cap, height, root, head, nextId, cache⟩ := s
  simp only at hh
  subst hh
  have ho := hi.ord
  have hz := hi.sz
  have h1 : (Branch.children root).length = (Branch.keys root).length + 1 := ho.2.1
  have h2 : rootMin (h+1) ≤ (Branch.keys root).length := hz.1
  simp only [rootMin] at h2
  have : ¬ (h + 1 = 0) := by omega
  simp only [this, if_false] at h2
  show 2 ≤ (Branch.children root).length
  omega

/-- readable form of the node-level clauses, for any branch in a valid tree and each of its children -/
theorem node_clauses (cap h : Nat) (b : Branch K (Tree K V h)) (lo hi : Option Int) (m : Nat)
    (ho : Ordered (h+1) (b : Tree K V (h+1)) lo hi) (hs : PSized cap (h+1) (b : Tree K V (h+1)) m) :
    KSorted b.keys ∧ b.children.length = b.keys.length + 1 ∧ b.keys.length ≤ cap ∧
    (∀ i c, b.children[i]? = some c → Ordered h c (loAt b.keys lo i) (hiAt b.keys hi i) ∧
      (cap - 1) / 2 ≤ BPT.nkeys h c ∧ BPT.nkeys h c ≤ cap) := by
  refine ⟨ho.1, ho.2.1, by have := hs.2.1; omega, ?_⟩
  intro i c hc
  have hsz := hs.2.2 c (List.mem_of_getElem? hc)
  exact ⟨ho.2.2.2 i c hc, (PSized.nkeys cap h c _ hsz).1, (PSized.nkeys cap h c _ hsz).2⟩

/-- the chain from `self.leaves` is the in-order list of leaves: consecutive leaves are linked,
    the last one points to `None`, and the head is the leftmost leaf -/
theorem chain_is_leaves (s : PState K V) (hi : PInv s) :
    ChainL ((leaves s.height s.root).map Rust.link) noneId ∧
    (leaves s.height s.root).head?.map (·.id) = some s.head := by
  refine ⟨hi.chain, ?_⟩
  have hne := Rust.links_ne_nil s.height s.root none none hi.ord
  have hh := hi.head
  unfold links at hne hh
  cases hl : leaves s.height s.root with
  | nil => rw [hl] at hne; exact absurd rfl hne
  | cons l rest => rw [hl] at hh; simp [hh, firstOf, Rust.link]

/-- **bulk load**: for every capacity ≥ 4 and every item list (sorted or not, with or without repeated keys)
    `from_sorted_items` raises nothing, yields a tree satisfying the invariants, and its contents are those of
    assigning the items one by one to a fresh map -/
theorem from_sorted_eq_incremental (cap : Nat) (hcap : 4 ≤ cap) (its : List (K × V)) :
    ∃ s' s0 sInc, fromSorted cap its = some (some s') ∧ PInv s' ∧ s'.cap = cap ∧
      (new cap : Option (PState K V)) = some s0 ∧ update s0 its = some sInc ∧ PInv sInc ∧ abs s' = abs sInc := by
  obtain ⟨s', h1, h2, h3, h4⟩ := fromSorted_spec (K := K) (V := V) cap hcap its
  obtain ⟨s0, h0, hinv0, habs0, _⟩ := pinv_new (K := K) (V := V) cap hcap
  obtain ⟨sInc, g1, g2, g3, _⟩ := update_spec its s0 hinv0
  exact ⟨s', s0, sInc, h1, h2, h4, h0, g1, g2, by rw [h3, g3, habs0]⟩

/-- the fast path is taken only on the true rightmost leaf and only for a key above every key of the map -/
theorem bulk_fast_path_sound (s : PState K V) (k : K) (v : V) (hi : PInv s) (hc : CacheOK s) :
    ∃ s', insertSorted s k v = some s' ∧ PInv s' ∧ CacheOK s' ∧ abs s' = SMap.insert (abs s) k v :=
  let ⟨s', h1, h2, h3, h4, _⟩ := insertSorted_spec s k v hi hc
  ⟨s', h1, h2, h3, h4⟩

namespace Legacy
/-- some non-root branch of the tree has no key -/
def hasEmptyBranch : (h : Nat) → Tree Int Nat h → Bool → Bool
  | 0, _, _ => false
  | h+1, (b : Branch Int (Tree Int Nat h)), isRoot =>
    (!isRoot && b.keys.length == 0) || b.children.any (fun c => hasEmptyBranch h c false)

def runLegacy (cfg : Cfg) (sets : List Int) (dels : List Int) : Option Bool :=
  match (new 4 : Option (PState Int Nat)) with
  | none => none
  | some s0 =>
    match sets.foldl (fun acc k => acc.bind fun s => setitem s k 0) (some s0) with
    | none => none
    | some s1 =>
      match dels.foldl (fun acc k => acc.bind fun s => (delitem cfg s k).map (·.1)) (some s1) with
      | none => none
      | some s2 => some (hasEmptyBranch s2.height s2.root true)

/-- D8 on the pre-repair model (capacity 4): after assigning 0..29 and deleting
    13,15,20,17,29,21,3,28,27,0,16,24,7,18,1,11,23,14,2,19 a non-root branch with no key survives;
    the repaired model keeps every branch populated on the same history -/
theorem py_empty_branch_survives :
    runLegacy { emptyShortcutLeafOnly := false } (List.range 30 |>.map Int.ofNat)
      [13,15,20,17,29,21,3,28,27,0,16,24,7,18,1,11,23,14,2,19] = some true ∧
    runLegacy Cfg.repaired (List.range 30 |>.map Int.ofNat)
      [13,15,20,17,29,21,3,28,27,0,16,24,7,18,1,11,23,14,2,19] = some false := by
  decide
end Legacy

/-- non-vacuity: the invariant holds of a concrete two-level tree -/
example : ∃ s : PState Int Nat, (new 4 : Option (PState Int Nat)) = some s ∧ PInv s := by
  obtain ⟨s, h1, h2, _⟩ := pinv_new (K := Int) (V := Nat) 4 (by omega)
  exact ⟨s, h1, h2⟩

end BPT.Props.C09
