import BPT.Props.C04
import BPT.Rust.Churn
/-
  C06 — Rust node arenas: allocated slots equal reachable nodes; freed slots are reused.

  `SInv.leafIds` / `SInv.branchIds` (`IdsOK`): for both arenas and every slot index `i`,
  (#occurrences of `i` among the ids of nodes reachable from the root) + (#occurrences on the free list)
  is 1 when `i` is below the storage length and 0 otherwise.
-/
namespace BPT.Props.C06
open BPT BPT.Rust Tree

variable {K V : Type} [Keyed K]

/-- no reachable node sits in a freed slot; reachable ids are pairwise distinct and in range; the free
    list names every unallocated slot exactly once; slot total = reachable + free -/
theorem ids_exact (s : RState K V) (hs : SInv s) :
    ((leaves s.height s.root).map (·.id) ++ s.al.leaf.free).Nodup ∧
    (∀ x ∈ (leaves s.height s.root).map (·.id) ++ s.al.leaf.free, x < s.al.leaf.len) ∧
    (leaves s.height s.root).length + s.al.leaf.free.length = s.al.leaf.len ∧
    (bids s.height s.root ++ s.al.branch.free).Nodup ∧
    (∀ x ∈ bids s.height s.root ++ s.al.branch.free, x < s.al.branch.len) ∧
    (bids s.height s.root).length + s.al.branch.free.length = s.al.branch.len := by
  have fl := hs.leafIds.facts
  rw [leafIds_eq_leaves] at fl
  have fb := hs.branchIds.facts
  exact ⟨fl.2.1, fl.2.2.1, by simpa using fl.1, fb.2.1, fb.2.2.1, fb.1⟩

/-- every slot index below the storage length is either a reachable node or on the free list (never both, never neither) -/
theorem free_list_exact (s : RState K V) (hs : SInv s) (i : Nat) (hi : i < s.al.leaf.len) :
    (i ∈ (leaves s.height s.root).map (·.id) ∧ i ∉ s.al.leaf.free) ∨ (i ∉ (leaves s.height s.root).map (·.id) ∧ i ∈ s.al.leaf.free) := by
  have h := hs.leafIds i
  rw [leafIds_eq_leaves] at h
  simp only [hi, if_true] at h
  by_cases hm : i ∈ (leaves s.height s.root).map (·.id)
  · left
    refine ⟨hm, fun hf => ?_⟩
    have h1 : 0 < List.count i ((leaves s.height s.root).map (·.id)) := List.count_pos_iff.2 hm
    have h2 : 0 < List.count i s.al.leaf.free := List.count_pos_iff.2 hf
    omega
  · right
    have hz : List.count i ((leaves s.height s.root).map (·.id)) = 0 := List.count_eq_zero.2 hm
    exact ⟨hm, List.count_pos_iff.1 (by omega)⟩

/-- **allocated = reachable**, on the arenas as the code stores them: both viewed arenas are well-formed
    `CompactArena`s whose allocated counts are the numbers of reachable leaves / branches -/
theorem allocated_eq_reachable (s : RState K V) (hs : SInv s) (hsm : Small s) :
    Arena.AInv (view s).leaves ∧ Arena.AInv (view s).branches ∧
    (view s).leaves.len = (leaves s.height s.root).length ∧ (view s).branches.len = (bids s.height s.root).length ∧
    (view s).leaves.freeCount = s.al.leaf.len - (leaves s.height s.root).length ∧
    (view s).branches.freeCount = s.al.branch.len - (bids s.height s.root).length := by
  obtain ⟨h1, h2, h3, h4⟩ := view_arenas s hs hsm
  refine ⟨h1, h2, h3, h4, ?_, ?_⟩
  · have := (Arena.counters _ h1).1
    have e : (view s).leaves.storage.length = s.al.leaf.len := by simp [view, viewLeaves]
    omega
  · have := (Arena.counters _ h2).1
    have e : (view s).branches.storage.length = s.al.branch.len := by simp [view, viewBranches]
    omega

/-- every reachable node is found in its slot (so no reachable node is in a freed slot of the real arena either) -/
theorem reachable_nodes_stored (s : RState K V) (hs : SInv s) (hsm : Small s) : Embeds (view s) s.cap s.height s.root :=
  view_embeds s hs hsm

/-- `clear()` leaves exactly one empty leaf and nothing else -/
theorem clear_single_leaf (s : RState K V) :
    (clear s).height = 0 ∧ leaves (clear s).height (clear s).root = [emptyLeaf 0] ∧
    (clear s).al.leaf = { len := 1, free := [] } ∧ (clear s).al.branch = { len := 0, free := [] } :=
  ⟨rfl, rfl, rfl, rfl⟩

/-- freed slots are reused before an arena grows: the allocator hands out the most recently freed id
    and only extends the storage when the free list is empty -/
theorem alloc_reuses (a : Alloc) : (a.free ≠ [] → a.alloc.2.len = a.len ∧ a.alloc.1 ∈ a.free) ∧
    (a.free = [] → a.alloc.1 = a.len ∧ a.alloc.2.len = a.len + 1) := by
  unfold Alloc.alloc
  constructor
  · intro h
    cases hf : a.free with
    | nil => exact absurd hf h
    | cons x rest => simp
  · intro h; simp [h]

/-- the introspection calls agree with the structure: on the arena view of every valid state
    `len`, `leaf_count`, `count_nodes_in_tree`, `leaf_sizes`, the collected leaf ids and `is_leaf_root`
    are the corresponding functions of the tree -/
theorem introspection_agrees (s : RState K V) (hs : SInv s) (hsm : Small s) :
    (view s).len = .ok (abs s).length ∧
    (view s).leafCount = .ok (leaves s.height s.root).length ∧
    (view s).countNodes = .ok ((leaves s.height s.root).length, (bids s.height s.root).length) ∧
    (view s).leafSizes = .ok ((leaves s.height s.root).map (fun l => l.keys.length)) ∧
    (view s).leafIds = .ok ((leaves s.height s.root).map (·.id)) ∧
    (view s).isLeafRoot = decide (s.height = 0) :=
  ⟨view_len s hs hsm, view_leafCount s hs hsm, view_countNodes s hs hsm, view_leafSizes s hs hsm, view_leafIds s hs hsm,
   view_isLeafRoot s⟩

/-- … and with the arenas: the node counts of the traversal are the allocated counts of the two arenas -/
theorem count_nodes_eq_allocated (s : RState K V) (hs : SInv s) (hsm : Small s) :
    (view s).countNodes = .ok ((view s).leaves.len, (view s).branches.len) := by
  obtain ⟨_, _, h1, h2⟩ := view_arenas s hs hsm
  rw [view_countNodes s hs hsm, h1, h2]

/-! ### churn: the slot total never exceeds the largest number of simultaneously live nodes -/

/-- a history with a ghost pair: the largest numbers of leaves / branches live at the same time since
    construction or the last `clear` -/
def peakStep (p : RState K V × (Nat × Nat)) (op : C01.Op K V) : Option (RState K V × (Nat × Nat)) :=
  (C01.step p.1 op).map fun r =>
    match op with
    | .clear => (r.1, (liveLeaves r.1, liveBranches r.1))
    | _ => (r.1, (max p.2.1 (liveLeaves r.1), max p.2.2 (liveBranches r.1)))

def peakRun (cap : Nat) (ops : List (C01.Op K V)) : Option (RState K V × (Nat × Nat)) :=
  ops.foldl (fun acc op => acc.bind fun p => peakStep p op) (some ((freshState cap : RState K V), (1, 0)))

theorem links_setRec_live (s : RState K V) (k : K) (v : V) :
    liveLeaves (getMutWrite s k v).1 = liveLeaves s ∧ liveBranches (getMutWrite s k v).1 = liveBranches s ∧
    (getMutWrite s k v).1.al = s.al := by
  unfold getMutWrite
  cases get s k with
  | none => exact ⟨rfl, rfl, rfl⟩
  | some p =>
    obtain ⟨e1, e2⟩ := links_setRec s.height s.root k v
    refine ⟨?_, ?_, rfl⟩
    · show (leaves s.height (setRec s.height s.root k v)).length = (leaves s.height s.root).length
      have := congrArg List.length e1
      simpa [links] using this
    · show (bids s.height (setRec s.height s.root k v)).length = _
      rw [e2]; rfl

/-- **churn bound**: along every history from `new(cap)`, `cap ≥ 4`, each arena's storage length is at most
    the largest number of its nodes that were live at the same time since construction or the last `clear`:
    freed slots are reused before an arena grows -/
theorem slots_le_peak_live (cap : Nat) (hcap : 4 ≤ cap) (ops : List (C01.Op K V)) (s : RState K V) (M : Nat × Nat)
    (h : peakRun cap ops = some (s, M)) :
    SInv s ∧ s.al.leaf.len ≤ M.1 ∧ s.al.branch.len ≤ M.2 ∧ liveLeaves s ≤ M.1 ∧ liveBranches s ≤ M.2 := by
  unfold peakRun at h
  suffices H : ∀ (ops : List (C01.Op K V)) (p : RState K V × (Nat × Nat)),
      (SInv p.1 ∧ p.1.al.leaf.len ≤ p.2.1 ∧ p.1.al.branch.len ≤ p.2.2 ∧ liveLeaves p.1 ≤ p.2.1 ∧ liveBranches p.1 ≤ p.2.2) →
      ∀ q, ops.foldl (fun acc op => acc.bind fun p => peakStep p op) (some p) = some q →
      (SInv q.1 ∧ q.1.al.leaf.len ≤ q.2.1 ∧ q.1.al.branch.len ≤ q.2.2 ∧ liveLeaves q.1 ≤ q.2.1 ∧ liveBranches q.1 ≤ q.2.2) by
    exact H ops _ ⟨sinv_fresh cap hcap, by simp [freshState], by simp [freshState],
      by simp [liveLeaves, freshState, leaves], by simp [liveBranches, freshState, bids]⟩ (s, M) h
  intro ops
  induction ops with
  | nil => intro p hp q hq; simp only [List.foldl_nil, Option.some.injEq] at hq; rw [← hq]; exact hp
  | cons op ops ih =>
    intro p hp q hq
    simp only [List.foldl_cons, Option.bind_some] at hq
    cases hst : peakStep p op with
    | none =>
      rw [hst] at hq
      have : ∀ (l : List (C01.Op K V)), l.foldl (fun acc op => acc.bind fun p => peakStep p op) (none : Option (RState K V × (Nat × Nat))) = none := by
        intro l; induction l with
        | nil => rfl
        | cons a l ihl => simp [List.foldl_cons, ihl]
      rw [this] at hq; cases hq
    | some p1 =>
      rw [hst] at hq
      refine ih p1 ?_ q hq
      obtain ⟨hs, h1, h2, h3, h4⟩ := hp
      unfold peakStep at hst
      cases hcs : C01.step p.1 op with
      | none => rw [hcs] at hst; cases hst
      | some r =>
        rw [hcs] at hst
        simp only [Option.map_some, Option.some.injEq] at hst
        have hs1 : SInv r.1 := C02.step_sinv p.1 op hs r.1 r.2 (by rw [hcs])
        cases op with
        | insert k v =>
          subst hst
          simp only [C01.step] at hcs
          cases hin : insert p.1 k v with
          | none => rw [hin] at hcs; cases hcs
          | some x =>
            rw [hin] at hcs
            simp only [Option.map_some, Option.some.injEq] at hcs
            have := insert_len_le p.1 x.1 k v x.2 hs hin
            rw [← hcs]
            refine ⟨by rw [← hcs] at hs1; exact hs1, ?_, ?_, Nat.le_max_right _ _, Nat.le_max_right _ _⟩
            · show x.1.al.leaf.len ≤ max p.2.1 (liveLeaves x.1)
              have := this.1; omega
            · show x.1.al.branch.len ≤ max p.2.2 (liveBranches x.1)
              have := this.2; omega
        | remove k =>
          subst hst
          simp only [C01.step] at hcs
          cases hre : remove p.1 k with
          | none => rw [hre] at hcs; cases hcs
          | some x =>
            rw [hre] at hcs
            simp only [Option.map_some, Option.some.injEq] at hcs
            have := remove_lens p.1 x.1 k x.2 hs hre
            rw [← hcs]
            refine ⟨by rw [← hcs] at hs1; exact hs1, ?_, ?_, Nat.le_max_right _ _, Nat.le_max_right _ _⟩
            · show x.1.al.leaf.len ≤ max p.2.1 (liveLeaves x.1)
              have := this.1; omega
            · show x.1.al.branch.len ≤ max p.2.2 (liveBranches x.1)
              have := this.2; omega
        | clear =>
          subst hst
          simp only [C01.step, Option.some.injEq] at hcs
          rw [← hcs]
          exact ⟨by rw [← hcs] at hs1; exact hs1, by simp [clear, freshState, liveLeaves, leaves],
            by simp [clear, freshState, liveBranches, bids], Nat.le_refl _, Nat.le_refl _⟩
        | getMut k v =>
          subst hst
          simp only [C01.step, Option.some.injEq] at hcs
          obtain ⟨e1, e2, e3⟩ := links_setRec_live p.1 k v
          rw [← hcs]
          refine ⟨by rw [← hcs] at hs1; exact hs1, ?_, ?_, Nat.le_max_right _ _, Nat.le_max_right _ _⟩
          · show (getMutWrite p.1 k v).1.al.leaf.len ≤ max p.2.1 _
            rw [e3]; omega
          · show (getMutWrite p.1 k v).1.al.branch.len ≤ max p.2.2 _
            rw [e3]; omega
        | get k =>
          simp only [] at hst; subst hst; simp only [C01.step, Option.some.injEq] at hcs; rw [← hcs]
          exact ⟨hs, Nat.le_trans h1 (Nat.le_max_left _ _), Nat.le_trans h2 (Nat.le_max_left _ _), Nat.le_max_right _ _, Nat.le_max_right _ _⟩
        | containsKey k =>
          simp only [] at hst; subst hst; simp only [C01.step, Option.some.injEq] at hcs; rw [← hcs]
          exact ⟨hs, Nat.le_trans h1 (Nat.le_max_left _ _), Nat.le_trans h2 (Nat.le_max_left _ _), Nat.le_max_right _ _, Nat.le_max_right _ _⟩
        | getOrDefault k d =>
          simp only [] at hst; subst hst; simp only [C01.step, Option.some.injEq] at hcs; rw [← hcs]
          exact ⟨hs, Nat.le_trans h1 (Nat.le_max_left _ _), Nat.le_trans h2 (Nat.le_max_left _ _), Nat.le_max_right _ _, Nat.le_max_right _ _⟩
        | len =>
          simp only [] at hst; subst hst; simp only [C01.step, Option.some.injEq] at hcs; rw [← hcs]
          exact ⟨hs, Nat.le_trans h1 (Nat.le_max_left _ _), Nat.le_trans h2 (Nat.le_max_left _ _), Nat.le_max_right _ _, Nat.le_max_right _ _⟩
        | isEmpty =>
          simp only [] at hst; subst hst; simp only [C01.step, Option.some.injEq] at hcs; rw [← hcs]
          exact ⟨hs, Nat.le_trans h1 (Nat.le_max_left _ _), Nat.le_trans h2 (Nat.le_max_left _ _), Nat.le_max_right _ _, Nat.le_max_right _ _⟩

/-- non-vacuity: at a concrete three-level state with five freed leaf slots (`C02.demo_state`: 40 inserts, 10 removals)
    the traversal counts equal the allocated counts of the arenas and the length reader equals the number of entries -/
example : ∃ s : RState Int Nat, s.height = 2 ∧ s.al.leaf.free.length = 5 ∧
    (view s).countNodes = .ok ((view s).leaves.len, (view s).branches.len) ∧ (view s).len = .ok 30 := by
  obtain ⟨s, hs, hsm, hh, hl, hf⟩ := C02.demo_state
  exact ⟨s, hh, hf, count_nodes_eq_allocated s hs hsm, hl ▸ (introspection_agrees s hs hsm).1⟩

end BPT.Props.C06
