import BPT.Props.C04
/-
  C06 — Rust node arenas: allocated slots equal reachable nodes; freed slots are reused.

  `SInv.leafIds` / `SInv.branchIds` (`IdsOK`): for both arenas and every slot index `i`,
  (#occurrences of `i` among the ids of nodes reachable from the root) + (#occurrences on the free list)
  is 1 when `i` is below the storage length and 0 otherwise.
-/
namespace BPT.Props.C06
open BPT BPT.Rust Tree

variable {K V : Type} [Keyed K]

/-- no reachable node sits in a freed slot; reachable ids are pairwise distinct and in range; the free
    list names every unallocated slot exactly once; slot total = reachable + free -/
theorem ids_exact (s : RState K V) (hs : SInv s) :
    ((leaves s.height s.root).map (·.id) ++ s.al.leaf.free).Nodup ∧
    (∀ x ∈ (leaves s.height s.root).map (·.id) ++ s.al.leaf.free, x < s.al.leaf.len) ∧
    (leaves s.height s.root).length + s.al.leaf.free.length = s.al.leaf.len ∧
    (bids s.height s.root ++ s.al.branch.free).Nodup ∧
    (∀ x ∈ bids s.height s.root ++ s.al.branch.free, x < s.al.branch.len) ∧
    (bids s.height s.root).length + s.al.branch.free.length = s.al.branch.len := by
  have fl := hs.leafIds.facts
  rw [leafIds_eq_leaves] at fl
  have fb := hs.branchIds.facts
  exact ⟨fl.2.1, fl.2.2.1, by simpa using fl.1, fb.2.1, fb.2.2.1, fb.1⟩

/-- every slot index below the storage length is either a reachable node or on the free list (never both, never neither) -/
theorem free_list_exact (s : RState K V) (hs : SInv s) (i : Nat) (hi : i < s.al.leaf.len) :
    (i ∈ (leaves s.height s.root).map (·.id) ∧ i ∉ s.al.leaf.free) ∨ (i ∉ (leaves s.height s.root).map (·.id) ∧ i ∈ s.al.leaf.free) := by
  have h := hs.leafIds i
  rw [leafIds_eq_leaves] at h
  simp only [hi, if_true] at h
  by_cases hm : i ∈ (leaves s.height s.root).map (·.id)
  · left
    refine ⟨hm, fun hf => ?_⟩
    have h1 : 0 < List.count i ((leaves s.height s.root).map (·.id)) := List.count_pos_iff.2 hm
    have h2 : 0 < List.count i s.al.leaf.free := List.count_pos_iff.2 hf
    omega
  · right
    have hz : List.count i ((leaves s.height s.root).map (·.id)) = 0 := List.count_eq_zero.2 hm
    exact ⟨hm, List.count_pos_iff.1 (by omega)⟩

/-- **allocated = reachable**, on the arenas as the code stores them: both viewed arenas are well-formed
    `CompactArena`s whose allocated counts are the numbers of reachable leaves / branches -/
theorem allocated_eq_reachable (s : RState K V) (hs : SInv s) (hsm : Small s) :
    Arena.AInv (view s).leaves ∧ Arena.AInv (view s).branches ∧
    (view s).leaves.len = (leaves s.height s.root).length ∧ (view s).branches.len = (bids s.height s.root).length ∧
    (view s).leaves.freeCount = s.al.leaf.len - (leaves s.height s.root).length ∧
    (view s).branches.freeCount = s.al.branch.len - (bids s.height s.root).length := by
  obtain ⟨h1, h2, h3, h4⟩ := view_arenas s hs hsm
  refine ⟨h1, h2, h3, h4, ?_, ?_⟩
  · have := (Arena.counters _ h1).1
    have e : (view s).leaves.storage.length = s.al.leaf.len := by simp [view, viewLeaves]
    omega
  · have := (Arena.counters _ h2).1
    have e : (view s).branches.storage.length = s.al.branch.len := by simp [view, viewBranches]
    omega

/-- every reachable node is found in its slot (so no reachable node is in a freed slot of the real arena either) -/
theorem reachable_nodes_stored (s : RState K V) (hs : SInv s) (hsm : Small s) : Embeds (view s) s.cap s.height s.root :=
  view_embeds s hs hsm

/-- `clear()` leaves exactly one empty leaf and nothing else -/
theorem clear_single_leaf (s : RState K V) :
    (clear s).height = 0 ∧ leaves (clear s).height (clear s).root = [emptyLeaf 0] ∧
    (clear s).al.leaf = { len := 1, free := [] } ∧ (clear s).al.branch = { len := 0, free := [] } :=
  ⟨rfl, rfl, rfl, rfl⟩

/-- freed slots are reused before an arena grows: the allocator hands out the most recently freed id
    and only extends the storage when the free list is empty -/
theorem alloc_reuses (a : Alloc) : (a.free ≠ [] → a.alloc.2.len = a.len ∧ a.alloc.1 ∈ a.free) ∧
    (a.free = [] → a.alloc.1 = a.len ∧ a.alloc.2.len = a.len + 1) := by
  unfold Alloc.alloc
  constructor
  · intro h
    cases hf : a.free with
    | nil => exact absurd hf h
    | cons x rest => simp
  · intro h; simp [h]

/-- the introspection calls agree with the structure: on the arena view of every valid state
    `len`, `leaf_count`, `count_nodes_in_tree`, `leaf_sizes`, the collected leaf ids and `is_leaf_root`
    are the corresponding functions of the tree -/
theorem introspection_agrees (s : RState K V) (hs : SInv s) (hsm : Small s) :
    (view s).len = .ok (abs s).length ∧
    (view s).leafCount = .ok (leaves s.height s.root).length ∧
    (view s).countNodes = .ok ((leaves s.height s.root).length, (bids s.height s.root).length) ∧
    (view s).leafSizes = .ok ((leaves s.height s.root).map (fun l => l.keys.length)) ∧
    (view s).leafIds = .ok ((leaves s.height s.root).map (·.id)) ∧
    (view s).isLeafRoot = decide (s.height = 0) :=
  ⟨view_len s hs hsm, view_leafCount s hs hsm, view_countNodes s hs hsm, view_leafSizes s hs hsm, view_leafIds s hs hsm,
   view_isLeafRoot s⟩

/-- … and with the arenas: the node counts of the traversal are the allocated counts of the two arenas -/
theorem count_nodes_eq_allocated (s : RState K V) (hs : SInv s) (hsm : Small s) :
    (view s).countNodes = .ok ((view s).leaves.len, (view s).branches.len) := by
  obtain ⟨_, _, h1, h2⟩ := view_arenas s hs hsm
  rw [view_countNodes s hs hsm, h1, h2]

end BPT.Props.C06
