import BPT.Props.C02
import BPT.Rust.ViewArena
import BPT.Rust.ValidatorComplete
/-
  C04 — Rust tree stays a valid, balanced B+ tree after every mutation.

  `SInv` (preserved by every mutator, `C02.reachable_sinv`) is the conjunction:
  `Inv.ord`  — keys of every node strictly ascending; every branch has one more child than keys;
               every key of child i lies in [separator i-1, separator i);
  `Inv.sz`   — every node ≤ capacity keys, every non-root node ≥ capacity/2, a branch root ≥ 1 key (≥ 2 children);
  `chain`    — the `next` links of the leaves, in tree order, form a chain ending in NULL;
  `leafIds`/`branchIds` — see C06.
  "All leaves at the same depth" is intrinsic to the height-indexed tree type; it is made explicit below.
-/
namespace BPT.Props.C04
open BPT BPT.Rust Tree

variable {K V : Type} [Keyed K]

/-- depth of every leaf below a node at depth `d` -/
def leafDepths : (h : Nat) → Tree K V h → Nat → List Nat
  | 0, _, d => [d]
  | h+1, (b : Branch K (Tree K V h)), d => b.children.flatMap (fun c => leafDepths h c (d+1))

theorem all_leaves_same_depth : ∀ (h : Nat) (t : Tree K V h) (d : Nat), ∀ x ∈ leafDepths h t d, x = d + h := by
  intro h
  induction h with
  | zero => intro t d x hx; simp [leafDepths] at hx; omega
  | succ h ih =>
    intro t d x hx
    simp only [leafDepths, List.mem_flatMap] at hx
    obtain ⟨c, _, hx⟩ := hx
    have := ih c (d+1) x hx
    omega

/-- every state reachable by insert / remove / get_mut writes / clear from `new(cap)`, `cap ≥ 4`, is valid -/
theorem reachable_valid (cap : Nat) (hcap : 4 ≤ cap) (ops : List (C01.Op K V)) (s' : RState K V)
    (h : (ops.foldl (fun (acc : Option (RState K V)) op => acc.bind fun s => (C01.step s op).map (·.1))
      (some (freshState cap))) = some s') : SInv s' :=
  C02.reachable_sinv ops (freshState cap) (sinv_fresh cap hcap) s' h

/-- a branch root has at least two children -/
theorem root_branch_two_children (s : RState K V) (hi : Inv s) (h : Nat) (hh : s.height = h + 1) :
    2 ≤ (Branch.children (hh ▸ s.root : Tree K V (h+1))).length := by
  obtain ⟨cap, height, root, al⟩ := s
  simp only at hh
  subst hh
  have ho := hi.ord
  have hz := hi.sz
  have h1 : (Branch.children root).length = (Branch.keys root).length + 1 := ho.2.1
  have h2 : rootMin (h+1) ≤ (Branch.keys root).length := hz.1
  simp only [rootMin] at h2
  have : ¬ (h + 1 = 0) := by omega
  simp only [this, if_false] at h2
  show 2 ≤ (Branch.children root).length
  omega

/-- readable form of the node-level clauses, for any node reachable as `children[i]` -/
theorem node_clauses (cap h : Nat) (b : Branch K (Tree K V h)) (lo hi : Option Int) (m : Nat)
    (ho : Ordered (h+1) (b : Tree K V (h+1)) lo hi) (hs : Sized cap (h+1) (b : Tree K V (h+1)) m) :
    KSorted b.keys ∧ b.children.length = b.keys.length + 1 ∧ b.keys.length ≤ cap ∧
    (∀ i c, b.children[i]? = some c → Ordered h c (loAt b.keys lo i) (hiAt b.keys hi i) ∧ Sized cap h c (cap/2) ∧
      cap / 2 ≤ nkeys h c ∧ nkeys h c ≤ cap) := by
  refine ⟨ho.1, ho.2.1, hs.2.1, ?_⟩
  intro i c hc
  have hsz := hs.2.2 c (List.mem_of_getElem? hc)
  exact ⟨ho.2.2.2 i c hc, hsz, (Sized.nkeys cap h c _ hsz).1, (Sized.nkeys cap h c _ hsz).2⟩

/-- the chain of leaves from the leftmost leaf visits exactly the tree's leaves in left-to-right order and then ends -/
theorem chain_is_leaves (s : RState K V) (hs : SInv s) (hsm : Small s) :
    RawChain (view s) s.cap (leaves s.height s.root) (firstOf (links s.height s.root) nullId) ∧
    (view s).firstLeaf = .ok ((leaves s.height s.root).head?.map (·.id)) := by
  refine ⟨view_chain s hs hsm, ?_⟩
  unfold RawMap.firstLeaf
  rw [view_root, firstLeafFrom_spec (view s) s.cap s.height s.root _ (view_embeds s hs hsm) (fuel_ok s hs),
      firstLeafOf_head s.height s.root none none hs.inv.ord]

/-! ### height stays logarithmic -/

theorem length_mul_le_sum {α : Type} (f : α → Nat) (m : Nat) (L : List α) (h : ∀ c ∈ L, m ≤ f c) :
    L.length * m ≤ (L.map f).sum := by
  induction L with
  | nil => simp
  | cons a L ih =>
    have h1 := h a List.mem_cons_self
    have h2 := ih (fun c hc => h c (List.mem_cons_of_mem _ hc))
    simp only [List.length_cons, List.map_cons, List.sum_cons, Nat.succ_mul]
    omega

/-- a non-root subtree of height `h` holds at least `(cap/2)·(cap/2+1)^h` entries -/
theorem min_entries (cap : Nat) : ∀ (h : Nat) (t : Tree K V h) (lo hi : Option Int),
    Ordered h t lo hi → Sized cap h t (cap/2) → (cap/2) * (cap/2 + 1)^h ≤ (toList h t).length := by
  intro h
  induction h with
  | zero =>
    intro t lo hi ho hs
    rw [toList_zero]
    have h1 : (t : Leaf K V).keys.length = (t : Leaf K V).vals.length := ho.2.1
    have h2 : cap / 2 ≤ (t : Leaf K V).keys.length := hs.1
    simp [Leaf.entries, List.length_zip]; omega
  | succ h ih =>
    intro t lo hi ho hs
    obtain ⟨_, hlen, _, hc⟩ := ho
    obtain ⟨hz1, _, hz3⟩ := hs
    rw [toList_succ, List.length_flatMap]
    have hall : ∀ c ∈ Branch.children t, (cap/2) * (cap/2 + 1)^h ≤ (toList h c).length := by
      intro c hcm
      obtain ⟨i, hi', hci⟩ := List.getElem_of_mem hcm
      exact ih c _ _ (hc i c (by rw [List.getElem?_eq_getElem hi', hci])) (hz3 c hcm)
    have := length_mul_le_sum (fun c => (toList h c).length) _ (Branch.children t) hall
    have hch : cap / 2 + 1 ≤ (Branch.children t).length := by omega
    have h3 : (cap / 2 + 1) * ((cap/2) * (cap/2 + 1)^h) ≤ (Branch.children t).length * ((cap/2) * (cap/2 + 1)^h) :=
      Nat.mul_le_mul_right _ hch
    have h4 : (cap/2) * (cap/2 + 1)^(h+1) = (cap / 2 + 1) * ((cap/2) * (cap/2 + 1)^h) := by
      rw [Nat.pow_succ]; ac_rfl
    omega

theorem height_log_root (cap h : Nat) (root : Tree K V (h+1)) (ho : Ordered (h+1) root none none)
    (hz : Sized cap (h+1) root 1) : 2 * ((cap/2) * (cap/2 + 1)^h) ≤ (toList (h+1) root).length := by
  obtain ⟨_, hlen, _, hc⟩ := ho
  obtain ⟨hz1, _, hz3⟩ := hz
  rw [toList_succ, List.length_flatMap]
  have hall : ∀ c ∈ Branch.children root, (cap/2) * (cap/2 + 1)^h ≤ (toList h c).length := by
    intro c hcm
    obtain ⟨i, hi', hci⟩ := List.getElem_of_mem hcm
    exact min_entries cap h c _ _ (hc i c (by rw [List.getElem?_eq_getElem hi', hci])) (hz3 c hcm)
  have := length_mul_le_sum (fun c => (toList h c).length) _ (Branch.children root) hall
  have hch : 2 ≤ (Branch.children root).length := by omega
  have h3 : 2 * ((cap/2) * (cap/2 + 1)^h) ≤ (Branch.children root).length * ((cap/2) * (cap/2 + 1)^h) :=
    Nat.mul_le_mul_right _ hch
  omega

/-- **height is logarithmic**: a map of height `h+1` holds at least `2·(cap/2)·(cap/2+1)^h` entries,
    so `h ≤ log_{cap/2+1} (len / cap)` and every lookup descends `O(log n)` nodes -/
theorem height_log (s : RState K V) (hi : Inv s) (h : Nat) (hh : s.height = h + 1) :
    2 * ((s.cap/2) * (s.cap/2 + 1)^h) ≤ (abs s).length := by
  obtain ⟨cap, height, root, al⟩ := s
  simp only at hh
  subst hh
  have hz := hi.sz
  simp only [rootMin, show ¬ (h + 1 = 0) by omega, if_false] at hz
  exact height_log_root cap h root hi.ord hz

/-! ### non-vacuity: a three-level state built by the model satisfies the invariants' decidable core -/
example : ((List.range 40).foldl (fun (acc : Option (RState Int Nat)) i => acc.bind fun s => (insert s (Int.ofNat i) i).map (·.1))
    (some (freshState 4))).map (fun s => (s.height, (abs s).length)) = some (3, 40) := by decide

/-- **`check_invariants()` / `check_invariants_detailed()` / `validate()` accept every reachable state**
    (completeness of the validator model on valid states) -/
theorem validators_accept (s : RState K V) (hs : SInv s) (hsm : Small s) :
    (view s).checkInvariants Cfg.repaired = .ok true ∧ (view s).checkDetailed Cfg.repaired = .ok none :=
  ⟨view_checkInvariants s hs hsm, view_checkDetailed s hs hsm⟩

end BPT.Props.C04
