import BPT.Rust.Iter2
import BPT.Props.C01
import BPT.Rust.FastIter
/-
  C02 — Rust iteration yields every entry exactly once in ascending key order.

  Readers are the *raw* ones (they walk the arenas as the code does); `view s` is
  the arena image of a state satisfying the structural invariant `SInv`, which
  every reachable state does (`reachable_sinv`).  `Small s` is the standing
  assumption that arena slots fit `u32` handles.
-/
namespace BPT.Props.C02
open BPT BPT.Rust

variable {K V : Type} [Keyed K]

/-- every state reachable through the map-level API satisfies the full structural invariant -/
theorem step_sinv (s : RState K V) (op : C01.Op K V) (hs : SInv s) (s' : RState K V) (o : C01.Out V)
    (he : C01.step s op = some (s', o)) : SInv s' := by
  cases op with
  | insert k v =>
    simp only [C01.step] at he
    cases hi : insert s k v with
    | none => simp [hi] at he
    | some p =>
      simp only [hi, Option.map_some, Option.some.injEq, Prod.mk.injEq] at he
      exact he.1 ▸ insert_sinv s k v hs p.1 p.2 hi
  | remove k =>
    simp only [C01.step] at he
    cases hi : remove s k with
    | none => simp [hi] at he
    | some p =>
      simp only [hi, Option.map_some, Option.some.injEq, Prod.mk.injEq] at he
      exact he.1 ▸ remove_sinv s k hs p.1 p.2 hi
  | getMut k v =>
    simp only [C01.step, Option.some.injEq, Prod.mk.injEq] at he
    exact he.1 ▸ getMutWrite_sinv s k v hs
  | clear =>
    simp only [C01.step, Option.some.injEq, Prod.mk.injEq] at he
    exact he.1 ▸ sinv_fresh s.cap hs.inv.cap4
  | get k => simp only [C01.step, Option.some.injEq, Prod.mk.injEq] at he; exact he.1 ▸ hs
  | containsKey k => simp only [C01.step, Option.some.injEq, Prod.mk.injEq] at he; exact he.1 ▸ hs
  | getOrDefault k d => simp only [C01.step, Option.some.injEq, Prod.mk.injEq] at he; exact he.1 ▸ hs
  | len => simp only [C01.step, Option.some.injEq, Prod.mk.injEq] at he; exact he.1 ▸ hs
  | isEmpty => simp only [C01.step, Option.some.injEq, Prod.mk.injEq] at he; exact he.1 ▸ hs

theorem reachable_sinv (ops : List (C01.Op K V)) : ∀ (s : RState K V), SInv s →
    ∀ s', (ops.foldl (fun (acc : Option (RState K V)) op => acc.bind fun s => (C01.step s op).map (·.1)) (some s)) = some s' → SInv s' := by
  induction ops with
  | nil => intro s hs s' h; simp at h; exact h ▸ hs
  | cons op ops ih =>
    intro s hs s' h
    obtain ⟨s1, o, he, _⟩ := C01.step_refines s op hs.inv
    simp only [List.foldl_cons, Option.bind_some, he, Option.map_some] at h
    exact ih s1 (step_sinv s op hs s1 o he) s' h

theorem new_sinv (cap : Nat) (hcap : 4 ≤ cap) : ∃ s, (new cap : Option (RState K V)) = some s ∧ SInv s :=
  ⟨freshState cap, by have : ¬ cap < minCapacity := by simp [minCapacity]; omega
                      simp [new, this], sinv_fresh cap hcap⟩

/-- **items() / slice()**: exactly the current entries, once each, in the order of the abstraction -/
theorem items_eq_abs (s : RState K V) (hs : SInv s) (hsm : Small s) :
    (view s).items Cfg.repaired = .ok (abs s) := view_items _ s hs hsm

/-- … and that order is strictly ascending by key -/
theorem items_strictly_ascending (s : RState K V) (hs : SInv s) : SMap.Sorted (abs s) := C01.abs_sorted s hs.inv

theorem keys_eq (s : RState K V) (hs : SInv s) (hsm : Small s) :
    (view s).keys Cfg.repaired = .ok ((abs s).map (·.1)) := by
  simp [RawMap.keys, items_eq_abs s hs hsm]

theorem values_eq (s : RState K V) (hs : SInv s) (hsm : Small s) :
    (view s).values Cfg.repaired = .ok ((abs s).map (·.2)) := by
  simp [RawMap.values, items_eq_abs s hs hsm]

/-- `last()` is the maximum entry (the last one of a strictly ascending list), `None` when empty -/
theorem last_eq (s : RState K V) (hs : SInv s) (hsm : Small s) :
    (view s).last Cfg.repaired = .ok ((abs s).getLast?) := by
  simp [RawMap.last, items_eq_abs s hs hsm]

/-- `first()` is the minimum entry (the head of a strictly ascending list), `None` when empty -/
theorem first_eq (s : RState K V) (hs : SInv s) (hsm : Small s) :
    (view s).first Cfg.repaired = .ok ((abs s).head?) := view_first _ s hs hsm

/-- `first()` / `last()` really are the extremes: every stored key lies between them, and they answer `None`
    exactly on the empty map -/
theorem first_last_extremes (s : RState K V) (hs : SInv s) (hsm : Small s) :
    ∃ f l, (view s).first Cfg.repaired = .ok f ∧ (view s).last Cfg.repaired = .ok l ∧
      (f = none ↔ abs s = []) ∧ (l = none ↔ abs s = []) ∧
      (∀ a ∈ f, ∀ p ∈ abs s, ord a.1 ≤ ord p.1) ∧ (∀ z ∈ l, ∀ p ∈ abs s, ord p.1 ≤ ord z.1) := by
  have hso := items_strictly_ascending s hs
  refine ⟨_, _, first_eq s hs hsm, last_eq s hs hsm, by simp, by simp, ?_, ?_⟩
  · intro a ha p hp
    cases hL : abs s with
    | nil => rw [hL] at ha; simp at ha
    | cons x xs =>
      rw [hL] at ha hp hso
      simp at ha; subst ha
      rcases List.mem_cons.1 hp with rfl | hp
      · omega
      · have := (List.pairwise_cons.1 hso).1 p hp; omega
  · intro z hz p hp
    rw [Option.mem_def, List.getLast?_eq_some_iff] at hz
    obtain ⟨ys, hys⟩ := hz
    rw [hys] at hp hso
    rcases List.mem_append.1 hp with hp | hp
    · have := (List.pairwise_append.1 hso).2.2 p hp z (by simp); omega
    · simp at hp; subst hp; omega
/-- every key paired with its current value: what `items()` yields for `k` is what `get` returns -/
theorem items_pair_current (s : RState K V) (k : K) (hs : SInv s) (hsm : Small s) :
    (view s).get k = .ok (SMap.lookup (abs s) k) := by
  rw [view_get s k hs hsm, get_spec s k hs.inv]

/-- an exhausted iterator keeps returning `None` -/
theorem exhausted_stays_none (cfg : Cfg) (m : RawMap K V) (st : RawMap.ItState K V) (f : Nat) (hst : st.leaf = none) :
    RawMap.itemNext cfg m (f+1) st = .ok (none, st) := by
  simp [RawMap.itemNext, hst]

/-- the state an iterator is left in when it returns `None` is exhausted -/
theorem none_means_exhausted (cfg : Cfg) (m : RawMap K V) (cap n : Nat) (st st' : RawMap.ItState K V) (fuel : Nat)
    (hp : Pos m cap st [] n) (hf : n + 1 ≤ fuel) (he : RawMap.itemNext cfg m fuel st = .ok (none, st')) :
    Pos m cap st' [] 0 := by
  obtain ⟨out, st2, he2, _, hres⟩ := itemNext_pos cfg m cap n st [] fuel hp hf
  rw [he] at he2
  simp only [Res.ok.injEq, Prod.mk.injEq] at he2
  rw [he2.2]; exact hres.2

/-- iterators do not influence each other: `next()` is a function of the (immutable) map and the
    iterator's own cursor, so advancing one leaves any other iterator state — and the map — as they were.
    Stated over an explicit interleaving schedule of two iterators. -/
def runSched (cfg : Cfg) (m : RawMap K V) (f : Nat) :
    List Bool → RawMap.ItState K V → RawMap.ItState K V → List (Option (K × V)) × List (Option (K × V))
  | [], _, _ => ([], [])
  | true :: sch, a, b =>
    match RawMap.itemNext cfg m f a with
    | .ok (o, a') => let r := runSched cfg m f sch a' b; (o :: r.1, r.2)
    | _ => ([], [])
  | false :: sch, a, b =>
    match RawMap.itemNext cfg m f b with
    | .ok (o, b') => let r := runSched cfg m f sch a b'; (r.1, o :: r.2)
    | _ => ([], [])

def runAlone (cfg : Cfg) (m : RawMap K V) (f : Nat) : Nat → RawMap.ItState K V → List (Option (K × V))
  | 0, _ => []
  | n+1, a =>
    match RawMap.itemNext cfg m f a with
    | .ok (o, a') => o :: runAlone cfg m f n a'
    | _ => []

theorem iterators_independent (cfg : Cfg) (m : RawMap K V) (cap : Nat) (f : Nat) :
    ∀ (sch : List Bool) (a b : RawMap.ItState K V) (Ra Rb : List (K × V)) (na nb : Nat),
      Pos m cap a Ra na → Pos m cap b Rb nb → na + 1 ≤ f → nb + 1 ≤ f →
      a.endKey = none → a.endBound = none → b.endKey = none → b.endBound = none →
      (runSched cfg m f sch a b).1 = runAlone cfg m f (sch.count true) a ∧
      (runSched cfg m f sch a b).2 = runAlone cfg m f (sch.count false) b := by
  intro sch
  induction sch with
  | nil => intro a b _ _ _ _ _ _ _ _ _ _ _ _; exact ⟨rfl, rfl⟩
  | cons x sch ih =>
    intro a b Ra Rb na nb hpa hpb hfa hfb ha1 ha2 hb1 hb2
    cases x with
    | true =>
      obtain ⟨out, a', he, hse, hres⟩ := itemNext_pos cfg m cap na a Ra f hpa hfa
      have hnb : ∀ k, RawMap.beyondEnd cfg a k = false := by intro k; simp [RawMap.beyondEnd, ha1, ha2]
      simp only [runSched, he, List.count_cons, beq_self_eq_true, if_true, runAlone]
      have hpa' : ∃ Ra' na', Pos m cap a' Ra' na' ∧ na' ≤ na := by
        cases Ra with
        | nil => exact ⟨[], 0, hres.2, Nat.zero_le _⟩
        | cons kv R' =>
          simp only [hnb, Bool.false_eq_true, if_false] at hres
          obtain ⟨_, n', h2, h3⟩ := hres
          exact ⟨R', n', h2, h3⟩
      obtain ⟨Ra', na', hpa'', hle⟩ := hpa'
      have := ih a' b Ra' Rb na' nb hpa'' hpb (by omega) hfb (hse.1 ▸ ha1) (hse.2.1 ▸ ha2) hb1 hb2
      simp only [show (true == false) = false from rfl, Bool.false_eq_true, if_false, Nat.add_zero]
      exact ⟨by rw [this.1], this.2⟩
    | false =>
      obtain ⟨out, b', he, hse, hres⟩ := itemNext_pos cfg m cap nb b Rb f hpb hfb
      have hnb : ∀ k, RawMap.beyondEnd cfg b k = false := by intro k; simp [RawMap.beyondEnd, hb1, hb2]
      simp only [runSched, he, List.count_cons, beq_self_eq_true, if_true, runAlone]
      have hpb' : ∃ Rb' nb', Pos m cap b' Rb' nb' ∧ nb' ≤ nb := by
        cases Rb with
        | nil => exact ⟨[], 0, hres.2, Nat.zero_le _⟩
        | cons kv R' =>
          simp only [hnb, Bool.false_eq_true, if_false] at hres
          obtain ⟨_, n', h2, h3⟩ := hres
          exact ⟨R', n', h2, h3⟩
      obtain ⟨Rb', nb', hpb'', hle⟩ := hpb'
      have := ih a b' Ra Rb' na nb' hpa hpb'' hfa (by omega) ha1 ha2 (hse.1 ▸ hb1) (hse.2.1 ▸ hb2)
      simp only [show (false == true) = false from rfl, Bool.false_eq_true, if_false, Nat.add_zero]
      exact ⟨this.1, by rw [this.2]⟩

/-- `items_fast()` (FastItemIterator) yields exactly the same sequence as `items()`: the current entries,
    once each, in strictly ascending key order -/
theorem items_fast_eq_abs (s : RState K V) (hs : SInv s) (hsm : Small s) :
    (view s).itemsFast Cfg.repaired = .ok (abs s) := view_itemsFast s hs hsm

/-! ### non-vacuity -/

/-- the history behind `demo_state`: ascending inserts of 0..39 followed by removals of 0..9 (splits at every level, then
    borrows and merges on the left edge) -/
def demoOps : List (C01.Op Int Nat) :=
  (List.range 40).map (fun i => C01.Op.insert (Int.ofNat i) i) ++ (List.range 10).map (fun i => C01.Op.remove (Int.ofNat i))

/-- **non-vacuity**: a concrete three-level state (root branch over branches over leaves, five freed leaf slots) reached through splits, borrows and merges meets the hypotheses
    (`SInv`, `Small`) of the theorems of C02, C03, C04, C05, C06, C10 and C11 -/
theorem demo_state : ∃ s : RState Int Nat, SInv s ∧ Small s ∧ s.height = 2 ∧ (abs s).length = 30 ∧ s.al.leaf.free.length = 5 := by
  have h : (demoOps.foldl (fun (acc : Option (RState Int Nat)) op => acc.bind fun s => (C01.step s op).map (·.1)) (some (freshState 4))).map
      (fun s => (s.height, (abs s).length, s.al.leaf.free.length, decide (s.al.leaf.len ≤ nullId ∧ s.al.branch.len ≤ nullId))) = some (2, 30, 5, true) := by decide
  cases hr : demoOps.foldl (fun (acc : Option (RState Int Nat)) op => acc.bind fun s => (C01.step s op).map (·.1)) (some (freshState 4)) with
  | none => rw [hr] at h; cases h
  | some s =>
    rw [hr] at h
    simp only [Option.map_some, Option.some.injEq, Prod.mk.injEq, decide_eq_true_eq] at h
    exact ⟨s, reachable_sinv demoOps (freshState 4) (sinv_fresh 4 (by decide)) s hr, h.2.2.2, h.1, h.2.1, h.2.2.1⟩

/-- the iteration theorems at that state -/
example : ∃ s : RState Int Nat, s.height = 2 ∧ (view s).items Cfg.repaired = .ok (abs s) ∧ (abs s).length = 30 := by
  obtain ⟨s, hs, hsm, hh, hl, _⟩ := demo_state
  exact ⟨s, hh, items_eq_abs s hs hsm, hl⟩
end BPT.Props.C02
