import BPT.Props.C12
import BPT.C.Errors
import BPT.C.Gc
import BPT.C.Dealloc
/-
  C13 — the C extension is memory-safe and balances reference counts.

  What the model carries, and what is proved of it (code with D9 / D11 repaired, tied by TieC):
  * bounds: every slot write of insert / delete / lookup is guarded by the allocated geometry
    (`Res.ub` otherwise); on valid states no call reaches `ub` — for all capacities and histories;
  * reference counts: for every call, as multisets, slots-after ++ DECREFs = slots-before ++ INCREFs
    (leaf splits, branch splits with separator ownership moving up, overwrites, deletions, lookups);
    destroying the tree releases exactly the slots; an iterator step takes one new reference per object it hands out,
    releases nothing, and only touches objects a slot currently owns;
  * capacity: the constructor stores exactly the capacity it was given or rejects it; the legacy
    (pre-D11) model accepts 65536, stores 0 and its first insert leaves the array (proved by `decide`);
  * the legacy (pre-D9) model leaks on a leaf split (proved by `decide`);
  * error exits: an assignment / lookup / deletion whose key cannot be compared with a stored key raises at its
    first comparison, before any slot is written or reference taken (`C/Errors.lean`; contract stated in the
    model, tied by the per-function INCREF/DECREF inventory and the `badset`/`badget`/`baddel` correspondence lines).
  Not expressible in the model, stated partial: CPython's allocator protocol for subclass instances
  (D10: tp_alloc / tp_free — tie lemma + subclass / wrapper lifecycles under the harness), GC traversal,
  use-after-free of the C heap: observed by the AddressSanitizer replay of every generated history and
  by the refcount / weakref audit, not proved.
-/
namespace BPT.Props.C13
open BPT BPT.C Tree

variable {K V : Type} [Keyed K]

/-- no call on a valid state leaves the allocated node geometry or reads an unwritten slot -/
theorem no_out_of_bounds (s : CState K V) (hi : CInv s) :
    (∀ k v, ∃ r, setitem Cfg.repaired s k v = .ok r) ∧ (∀ k, ∃ r, delitem s k = .ok r) ∧
    (∀ k, ∃ r, getitem s k = .ok r) ∧ (∀ k, ∃ r, contains s k = .ok r) := by
  refine ⟨?_, ?_, ?_, ?_⟩
  · intro k v; obtain ⟨s', ev, he, _⟩ := setitem_spec Cfg.repaired s k v hi; exact ⟨_, he⟩
  · intro k; obtain ⟨r, he, _⟩ := delitem_spec s k hi; exact ⟨_, he⟩
  · intro k; obtain ⟨ev, he⟩ := getitem_spec s k hi; exact ⟨_, he⟩
  · intro k; obtain ⟨ev, he⟩ := contains_spec s k hi; exact ⟨_, he⟩

/-- … and this holds along every history (C12.refines_dict returns `.ok` at every step and keeps `CInv`) -/
theorem no_out_of_bounds_along_histories (c : Nat) (h4 : 4 ≤ c) (h16 : c < 2 ^ capacityBits) (ops : List (C12.Op K V)) :
    ∃ s0 s', (new Cfg.repaired c : Option (CState K V)) = some s0 ∧ (∃ outs, C12.run s0 ops = .ok (s', outs)) ∧ CInv s' := by
  obtain ⟨s0, s', h0, h1, h2, _⟩ := C12.refines_dict (K := K) (V := V) c h4 h16 ops
  exact ⟨s0, s', h0, ⟨_, h1⟩, h2⟩

/-- **reference-count balance** of `__setitem__` (insert, overwrite, leaf and branch splits, root growth) -/
theorem setitem_balanced (s s' : CState K V) (k : K) (v : V) (ev : Evs K V) (hi : CInv s)
    (he : setitem Cfg.repaired s k v = .ok (s', ev)) : (slots s' ++ ev.dec).Perm (slots s ++ ev.inc) :=
  setitem_refs s s' k v ev hi he

/-- **reference-count balance** of `__delitem__` -/
theorem delitem_balanced (s s' : CState K V) (k : K) (ev : Evs K V)
    (he : delitem s k = .ok (some (s', ev))) : (slots s' ++ ev.dec).Perm (slots s ++ ev.inc) :=
  delitem_refs s s' k ev he

/-- lookups: `[]` hands out one new reference to the value it returns, `in` none, the tree keeps its own -/
theorem lookups_balanced (s : CState K V) (k : K) :
    (∀ r ev, getitem s k = .ok (r, ev) → ev.dec = [] ∧ ev.inc = r.toList.map (Obj.val (K := K))) ∧
    (∀ b ev, contains s k = .ok (b, ev) → ev.inc = ev.dec) :=
  ⟨fun r ev he => getitem_refs s k r ev he, fun b ev he => contains_refs s k b ev he⟩

/-- iterator steps (`next()` of `iter(t)`, `keys()`, `items()`): nothing is released, exactly one new reference is taken for
    each key / value object inside the returned value, and every such object is owned by a slot of the tree at that
    moment; a stale iterator (stamp mismatch) touches nothing at all -/
theorem iterator_step_balanced (s : CState K V) (hi : CInv s) (it : Iter) (R : List (K × V)) (hp : Pos s it R) :
    ∃ it' out, iterNext s it = .ok (it', out) ∧ (iterEvs out).dec = [] ∧ (iterEvs out).inc = handedOut out ∧
      ∀ o ∈ (iterEvs out).inc, o ∈ slots s :=
  iterNext_refs s (walk_of_cinv s hi) it R hp

theorem stale_iterator_touches_nothing (s : CState K V) (it : Iter) (h : it.modc ≠ s.modc) :
    iterNext s it = .ok (it, .runtimeError) ∧ (iterEvs (IterOut.runtimeError : IterOut K V)).inc = [] ∧
      (iterEvs (IterOut.runtimeError : IterOut K V)).dec = [] := by
  refine ⟨?_, rfl, rfl⟩
  unfold iterNext; rw [if_pos h]

/-- destroying the tree releases every reference it holds, each exactly once -/
theorem dealloc_balanced (s : CState K V) : (dealloc s).dec = slots s ∧ (dealloc s).inc = [] :=
  dealloc_releases_all s

/-- **cyclic-GC protocol.** On every valid state `tp_traverse` (`BPlusTree_traverse` → `node_gc_op`, its loops
    transcribed by index) calls `visit` on exactly the references the tree owns — every key slot, separator slot and
    value slot once, nothing else, nothing twice — and `tp_clear` releases exactly those, once each, taking none -/
theorem gc_traverse_exact (s : CState K V) (hi : CInv s) :
    gcTraverse s = slots s ∧ (gcClear s).dec = slots s ∧ (gcClear s).inc = [] :=
  ⟨gcTraverse_eq_slots s hi, by rw [gcClear_eq_dealloc s hi]; rfl, rfl⟩

/-- … after every history of calls from the constructor -/
theorem gc_traverse_exact_along_histories (c : Nat) (h4 : 4 ≤ c) (h16 : c < 2 ^ capacityBits) (ops : List (C12.Op K V)) :
    ∃ s0 s', (new Cfg.repaired c : Option (CState K V)) = some s0 ∧ (∃ outs, C12.run s0 ops = .ok (s', outs)) ∧
      gcTraverse s' = slots s' ∧ (gcClear s').dec = slots s' ∧ (gcClear s').inc = [] := by
  obtain ⟨s0, s', h0, h1, h2⟩ := no_out_of_bounds_along_histories (K := K) (V := V) c h4 h16 ops
  exact ⟨s0, s', h0, h1, gc_traverse_exact s' h2⟩

/-- **the destructor as written** — `BPlusTree_dealloc` = `BPlusTree_clear` (`Py_CLEAR` on every slot) followed by
    `node_destroy` (`Py_XDECREF` on every slot), both transcribed over nullable slots — releases every reference the
    tree owns exactly once and takes none: the first pass stores NULL before it releases, the second skips NULL -/
theorem dealloc_two_pass_balanced (s : CState K V) (hi : CInv s) :
    (deallocTwoPass s).dec = slots s ∧ (deallocTwoPass s).inc = [] := by
  rw [deallocTwoPass_eq_dealloc s hi]; exact dealloc_releases_all s

/-- … and what the NULL store is for: if the first pass released without nulling, every reference would be released twice -/
theorem dealloc_without_nulling_double_release (s : CState K V) (hi : CInv s) :
    (clearPassNoNull ((gcVisit s.height s.root).map some)).1 ++
      destroyPass (clearPassNoNull ((gcVisit s.height s.root).map some)).2 = slots s ++ slots s :=
  dealloc_without_nulling_releases_twice s hi

/-- the shape part of the invariant is what the loops rely on: with `num_keys` and the value array out of step a slot
    goes unreported (a leaked cycle) -/
theorem gc_traverse_needs_shape :
    gcVisit 0 ({ id := 1, keys := [1, 2], vals := [10], next := noneId } : Leaf Int Nat) ≠
      slotsOf 0 ({ id := 1, keys := [1, 2], vals := [10], next := noneId } : Leaf Int Nat) ∨
    gcVisit 0 ({ id := 1, keys := [1], vals := [10, 20], next := noneId } : Leaf Int Nat) ≠
      slotsOf 0 ({ id := 1, keys := [1], vals := [10, 20], next := noneId } : Leaf Int Nat) :=
  gcVisit_needs_shape

/-- along any history of assignments and deletions the references the tree has taken and not yet
    released are exactly its slots: nothing leaked, nothing over-released, and `dealloc` then returns to zero -/
theorem owned_eq_slots_step (s s' : CState K V) (hi : CInv s) (owned : List (Obj K V)) (ho : owned.Perm (slots s)) :
    (∀ k v ev, setitem Cfg.repaired s k v = .ok (s', ev) → ((owned ++ ev.inc).Perm (slots s' ++ ev.dec))) ∧
    (∀ k ev, delitem s k = .ok (some (s', ev)) → ((owned ++ ev.inc).Perm (slots s' ++ ev.dec))) := by
  constructor
  · intro k v ev he
    exact ((ho.append_right _).trans (setitem_refs s s' k v ev hi he).symm)
  · intro k ev he
    exact ((ho.append_right _).trans (delitem_refs s s' k ev he).symm)

/-- the constructor accepts exactly `4 ≤ c < 2^16` and then stores `c` itself: no silent truncation -/
theorem capacity_exact (c : Nat) :
    ((new Cfg.repaired c : Option (CState K V)) = none ↔ (c < 4 ∨ 2 ^ capacityBits ≤ c)) ∧
    (∀ s, (new Cfg.repaired c : Option (CState K V)) = some s → s.cap = c) := new_spec c

namespace Legacy
def isUb {α : Type} : Res α → Bool
  | .ub => true
  | _ => false

/-- D11 on the pre-repair model: capacity 65536 is accepted, stored as 0, and the first insert writes outside the node;
    the repaired model rejects it -/
theorem capacity_truncates :
    ((new { legacyNarrow := true } 65536 : Option (CState Int Nat)).map (·.cap) = some 0) ∧
    isUb (setitem { legacyNarrow := true }
      ({ cap := 0, height := 0, root := (emptyLeaf 1 : Leaf Int Nat), size := 0, modc := 0, nextId := 2 } : CState Int Nat) 1 1) = true ∧
    ((new Cfg.repaired 65536 : Option (CState Int Nat)).map (·.cap) = none) := by
  decide

/-- D9 on the pre-repair model: a leaf split at capacity 4 takes a second reference on every entry it moves
    (5 keys + 5 values + the separator copy, nothing released); the repaired model takes exactly three -/
theorem leaf_split_leaks :
    ((insertLeaf { legacyRefs := true } 4 ({ id := 1, keys := [1, 2, 3, 4], vals := [10, 20, 30, 40], next := 0 } : Leaf Int Nat) 5 50 2).map
        (fun r => (r.2.inc.length, r.2.dec.length)) = .ok (11, 0)) ∧
    ((insertLeaf Cfg.repaired 4 ({ id := 1, keys := [1, 2, 3, 4], vals := [10, 20, 30, 40], next := 0 } : Leaf Int Nat) 5 50 2).map
        (fun r => (r.2.inc, r.2.dec)) = .ok ([.key 5, .val 50, .key 3], [])) := by
  decide
end Legacy

/-- a call that raises because its key cannot be compared keeps no reference to the key or value it was given and
    leaves the tree as it was; this applies to every tree that holds at least one entry in a single leaf or has a
    branch root (every tree a search has something to compare with) -/
theorem failed_call_keeps_nothing (s s' : CState K V) (e : Evs K V) (h : raisingCall s = some (s', e)) :
    s' = s ∧ e.inc = [] ∧ e.dec = [] :=
  ⟨raisingCall_state s s' e h, raisingCall_refs s s' e h⟩

example : ∃ s : CState Int Nat, (∃ r, setitem Cfg.repaired
      ({ cap := 4, height := 0, root := (emptyLeaf 1 : Leaf Int Nat), size := 0, modc := 0, nextId := 2 } : CState Int Nat) 1 10 = .ok r ∧ r.1 = s) ∧
    (raisingCall s).isSome = true := by
  refine ⟨_, ⟨_, rfl, rfl⟩, ?_⟩; decide

/-- non-vacuity: a concrete history through a leaf split and a deletion stays inside the node geometry and ends in a valid
    state, where an iterator positioned at the start takes exactly one reference per object of the first item -/
example : ∃ s0 s' : CState Int Nat, (new Cfg.repaired 4 : Option (CState Int Nat)) = some s0 ∧
    (∃ outs, C12.run s0 [.set 1 10, .set 2 20, .set 3 30, .set 4 40, .set 5 50, .del 2] = .ok (s', outs)) ∧ CInv s' ∧
    (∃ it' out, iterNext s' (iterNew s' true) = .ok (it', out) ∧ (iterEvs out).dec = [] ∧ (iterEvs out).inc = handedOut out) := by
  obtain ⟨s0, s', h0, h1, h2⟩ := no_out_of_bounds_along_histories (K := Int) (V := Nat) 4 (by omega) (by decide)
    [.set 1 10, .set 2 20, .set 3 30, .set 4 40, .set 5 50, .del 2]
  obtain ⟨it', out, e1, e2, e3, _⟩ := iterator_step_balanced s' h2 (iterNew s' true) (abs s') (pos_new s' h2 true)
  exact ⟨s0, s', h0, h1, h2, it', out, e1, e2, e3⟩

end BPT.Props.C13
