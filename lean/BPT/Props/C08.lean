import BPT.Props.C07
/-
  C08 — iteration of the pure-Python map is sorted and complete; `items/keys/values/range(a, b)`
  yield exactly the entries with `a <= key < b` (`None` = unbounded on that side).

  All of these are `items(start_key, end_key)` (keys/values project it, `range` returns it —
  transcribed in the driver and tied by the source strings in TiePy).  On every valid state —
  hence, by C07/C09, after every call history — the model's `items` is the filter of the
  strictly ascending entry list.
-/
namespace BPT.Props.C08
open BPT BPT.Py Tree

variable {K V : Type} [Keyed K]

/-- `items(a, b)` = the entries with `a <= key < b`, in ascending key order, each once -/
theorem items_eq_filter (s : PState K V) (hi : PInv s) (a b : Option K) :
    items s a b = .ok ((abs s).filter (fun p => inRange a b p.1)) := items_spec s hi a b

/-- unbounded iteration yields every entry exactly once in ascending key order -/
theorem items_all (s : PState K V) (hi : PInv s) : items s none none = .ok (abs s) ∧ SMap.Sorted (abs s) := by
  refine ⟨?_, abs_sorted s hi⟩
  rw [items_spec s hi none none]
  congr 1
  rw [List.filter_eq_self]; intro p _; rfl

/-- `keys(a, b)` / `values(a, b)` are the projections -/
theorem keys_eq (s : PState K V) (hi : PInv s) (a b : Option K) :
    (items s a b).map (·.map (·.1)) = .ok (((abs s).filter (fun p => inRange a b p.1)).map (·.1)) := by
  rw [items_spec s hi a b]; rfl
theorem values_eq (s : PState K V) (hi : PInv s) (a b : Option K) :
    (items s a b).map (·.map (·.2)) = .ok (((abs s).filter (fun p => inRange a b p.1)).map (·.2)) := by
  rw [items_spec s hi a b]; rfl

/-- an empty or inverted interval yields nothing -/
theorem empty_or_inverted (s : PState K V) (hi : PInv s) (a b : K) (h : ord b ≤ ord a) :
    items s (some a) (some b) = .ok [] := by
  rw [items_spec s hi]
  congr 1
  rw [List.filter_eq_nil_iff]
  intro p _
  simp only [inRange, Bool.and_eq_true, decide_eq_true_eq, not_and]
  intro h1; omega

/-- membership: an entry is yielded iff it is stored and its key is inside the bounds -/
theorem mem_items_iff (s : PState K V) (hi : PInv s) (a b : Option K) (p : K × V) :
    (∃ l, items s a b = .ok l ∧ p ∈ l) ↔ p ∈ abs s ∧ inRange a b p.1 = true := by
  rw [items_spec s hi]
  constructor
  · rintro ⟨l, hl, hp⟩
    cases hl
    exact List.mem_filter.1 hp
  · intro h
    exact ⟨_, rfl, List.mem_filter.2 h⟩

/-- the yielded list is strictly ascending by key (hence every entry once), for every pair of endpoints -/
theorem items_sorted (s : PState K V) (hi : PInv s) (a b : Option K) :
    ∃ l, items s a b = .ok l ∧ SMap.Sorted l :=
  ⟨_, items_spec s hi a b, List.Pairwise.filter _ (abs_sorted s hi)⟩

/-- paging: cutting `[a, b)` at any key `m` into `[a, m)` and `[m, b)` loses and duplicates nothing -/
theorem items_split (s : PState K V) (hi : PInv s) (a b : Option K) (m : K) :
    ∃ l r w, items s a (some m) = .ok l ∧ items s (some m) b = .ok r ∧ items s a b = .ok w ∧
      ∀ p, p ∈ w ↔ (p ∈ l ∧ inRange none b p.1 = true) ∨ (p ∈ r ∧ inRange a none p.1 = true) := by
  refine ⟨_, _, _, items_spec s hi _ _, items_spec s hi _ _, items_spec s hi _ _, ?_⟩
  intro p
  simp only [List.mem_filter, inRange, Bool.and_eq_true, decide_eq_true_eq, Bool.true_and, Bool.and_true]
  constructor
  · rintro ⟨hm, h1, h2⟩
    by_cases h : ord p.1 < ord m
    · exact Or.inl ⟨⟨hm, h1, h⟩, h2⟩
    · exact Or.inr ⟨⟨hm, by omega, h2⟩, h1⟩
  · rintro (⟨⟨hm, h1, _⟩, h2⟩ | ⟨⟨hm, _, h2⟩, h1⟩)
    · exact ⟨hm, h1, h2⟩
    · exact ⟨hm, h1, h2⟩
/-- the chain walk visits exactly the leaves in tree order -/
theorem chain_is_leaves (s : PState K V) (hi : PInv s) : chain s = .ok (leaves s.height s.root) := chain_spec s hi

/-- after any call history from `BPlusTreeMap(cap)`, `cap ≥ 4`, the range scan is the filtered sorted contents -/
theorem items_after_history (isNone : V → Bool) (cap : Nat) (hcap : 4 ≤ cap) (ops : List (Op K V)) (a b : Option K) :
    ∃ s0 s', (new cap : Option (PState K V)) = some s0 ∧
      C07.run isNone s0 ops = .ok (s', (C07.specRun [] ops).2) ∧
      items s' a b = .ok (((C07.specRun [] ops).1).filter (fun p => inRange a b p.1)) := by
  obtain ⟨s0, s', h0, h1, h2, h3⟩ := C07.refines_dict (K := K) (V := V) isNone cap hcap ops
  exact ⟨s0, s', h0, h1, by rw [items_spec s' h2, h3]⟩

/-- non-vacuity: a concrete history (leaf split, a deletion) and a range whose start is an absent key and whose end is a present one -/
example : ∃ s0 s' : PState Int Nat, (new 4 : Option (PState Int Nat)) = some s0 ∧
    (∃ outs, C07.run (fun _ => false) s0 [.set 1 10, .set 2 20, .set 3 30, .set 4 40, .set 5 50, .set 6 60, .del 3] = .ok (s', outs)) ∧
    items s' (some 3) (some 6) = .ok [(4, 40), (5, 50)] := by
  obtain ⟨s0, s', h0, h1, h2⟩ := items_after_history (K := Int) (V := Nat) (fun _ => false) 4 (by omega)
    [.set 1 10, .set 2 20, .set 3 30, .set 4 40, .set 5 50, .set 6 60, .del 3] (some 3) (some 6)
  refine ⟨s0, s', h0, ⟨_, h1⟩, ?_⟩
  rw [h2]; decide

end BPT.Props.C08
