import BPT.C.Refs
import BPT.C.Wrapper
import BPT.C.Search
/-
  C12 — the C extension mapping behaves like dict; iterators fail fast on mutation.

  Specification: the sorted association list `abs s` with `SMap.insert / erase / lookup`.
  The C tree has no lower occupancy bound (deletions never rebalance, leaves may be empty),
  so the invariant `CInv` is: strict order, arity, separator bounds, no node above capacity,
  `size` = number of entries, leaf chain = leaves in order.

  Proved for every capacity in [4, 2^16) and every finite history: `__setitem__`, `__delitem__`,
  `__getitem__`, `__contains__`, `len` and the wrapper's get / pop / setdefault / update
  answer what the specification answers, never reach an error other than KeyError and never
  leave the allocated geometry (`Res.ub`); the iterator raises RuntimeError as its first action
  whenever the stamps differ, and every successful mutation strictly increases the stamp.

  Iteration: on a valid, unmodified tree each `next()` yields the next entry in key order, skipping
  leaves emptied by deletions (`C.iterNext_pos`); a drained iterator is exactly `abs s`
  (`C.items_spec`), so `keys()/items()/values()` and the wrapper's popitem / copy / clear, which are
  built on it, have dict semantics too.
  Partial, and said so: the three comparison fast paths (exact int, exact str, rich compare) and
  argument parsing are glue covered by the correspondence run with five key representations.
-/
namespace BPT.Props.C12
open BPT BPT.C Tree

variable {K V : Type} [Keyed K]

/-- the mapping protocol of the C type plus the wrapper methods that do not iterate -/
inductive Op (K V : Type) where
  | set (k : K) (v : V)
  | del (k : K)
  | get (k : K)
  | contains (k : K)
  | len
  | wget (k : K) (d : V)
  | wpop (k : K) (d : Option V)
  | wsetdefault (k : K) (d : V)
  | wupdate (its : List (K × V))
  | items                                   -- `list(t.items())`; keys() / values() are its projections
  | wpopitem
  | wcopy                                   -- the history continues on the copy
  | wclear

inductive Out (K V : Type) where
  | unit
  | keyError
  | val (v : V)
  | bool (b : Bool)
  | nat (n : Nat)
  | item (k : K) (v : V)
  | list (l : List (K × V))

def step (s : CState K V) : Op K V → Res (CState K V × Out K V)
  | .set k v => (setitem Cfg.repaired s k v).map fun r => (r.1, .unit)
  | .del k => (delitem s k).map fun r => match r with | some (s', _) => (s', .unit) | none => (s, .keyError)
  | .get k => (getitem s k).map fun r => (s, match r.1 with | some v => .val v | none => .keyError)
  | .contains k => (contains s k).map fun r => (s, .bool r.1)
  | .len => .ok (s, .nat (len s))
  | .wget k d => (wget s k d).map fun v => (s, .val v)
  | .wpop k d => (wpop s k d).map fun r => (r.1, match r.2 with | some v => .val v | none => .keyError)
  | .wsetdefault k d => (wsetdefault Cfg.repaired s k d).map fun r => (r.1, .val r.2)
  | .wupdate its => (wupdate Cfg.repaired s its).map fun s' => (s', .unit)
  | .items => (items s).map fun l => (s, .list l)
  | .wpopitem => (wpopitem s).map fun r => (r.1, match r.2 with | some (k, v) => .item k v | none => .keyError)
  | .wcopy => (wcopy Cfg.repaired s).map fun s' => (s', .unit)
  | .wclear => (wclear (s.size + 1) s).map fun s' => (s', .unit)

def specStep (m : List (K × V)) : Op K V → List (K × V) × Out K V
  | .set k v => (SMap.insert m k v, .unit)
  | .del k => (SMap.erase m k, if (SMap.lookup m k).isSome then .unit else .keyError)
  | .get k => (m, match SMap.lookup m k with | some p => .val p.2 | none => .keyError)
  | .contains k => (m, .bool (SMap.lookup m k).isSome)
  | .len => (m, .nat m.length)
  | .wget k d => (m, .val (match SMap.lookup m k with | some p => p.2 | none => d))
  | .wpop k d =>
    match SMap.lookup m k with
    | some p => (SMap.erase m k, .val p.2)
    | none => (m, match d with | some d => .val d | none => .keyError)
  | .wsetdefault k d =>
    match SMap.lookup m k with
    | some p => (m, .val p.2)
    | none => (SMap.insert m k d, .val d)
  | .wupdate its => (its.foldl (fun m kv => SMap.insert m kv.1 kv.2) m, .unit)
  | .items => (m, .list m)
  | .wpopitem => (match m with | [] => ([], .keyError) | p :: rest => (rest, .item p.1 p.2))
  | .wcopy => (m, .unit)
  | .wclear => ([], .unit)

theorem erase_of_lookup_none (m : List (K × V)) (k : K) (h : SMap.lookup m k = none) : SMap.erase m k = m := by
  apply SMap.erase_of_ne
  intro p hp he
  unfold SMap.lookup at h
  rw [List.find?_eq_none] at h
  exact h p hp (by simp [he])

theorem wupdate_spec (its : List (K × V)) : ∀ (s : CState K V), CInv s →
    ∃ s', wupdate Cfg.repaired s its = .ok s' ∧ CInv s' ∧ abs s' = its.foldl (fun m kv => SMap.insert m kv.1 kv.2) (abs s) ∧ s'.cap = s.cap := by
  induction its with
  | nil => intro s hi; exact ⟨s, rfl, hi, rfl, rfl⟩
  | cons kv its ih =>
    intro s hi
    obtain ⟨s1, ev, he, hi1, ha1, hc1, _⟩ := setitem_spec Cfg.repaired s kv.1 kv.2 hi
    obtain ⟨s', h1, h2, h3, h4⟩ := ih s1 hi1
    refine ⟨s', ?_, h2, by rw [h3, ha1]; rfl, by rw [h4, hc1]⟩
    unfold wupdate at h1 ⊢
    simp only [List.foldl_cons, Res.bind_ok, he, Res.map_ok]
    exact h1

/-- one call: the specification's answer, nothing but KeyError, never out of bounds, invariant kept -/
theorem step_refines (s : CState K V) (op : Op K V) (hi : CInv s) :
    ∃ s', step s op = .ok (s', (specStep (abs s) op).2) ∧ CInv s' ∧ abs s' = (specStep (abs s) op).1 := by
  cases op with
  | set k v =>
    obtain ⟨s', ev, he, h1, h2, h3, _⟩ := setitem_spec Cfg.repaired s k v hi
    exact ⟨s', by simp [step, he, specStep], h1, h2⟩
  | del k =>
    obtain ⟨r, he, hr⟩ := delitem_spec s k hi
    cases r with
    | none =>
      refine ⟨s, ?_, hi, ?_⟩
      · simp [step, he, specStep, hr]
      · simp only [specStep]; exact (erase_of_lookup_none (abs s) k hr).symm
    | some p =>
      obtain ⟨s', ev⟩ := p
      obtain ⟨h1, h2, h3, h4, _⟩ := hr
      exact ⟨s', by simp [step, he, specStep, h3], h1, h2⟩
  | get k =>
    obtain ⟨ev, he⟩ := getitem_spec s k hi
    refine ⟨s, ?_, hi, rfl⟩
    simp only [step, he, Res.map_ok, specStep]
    cases SMap.lookup (abs s) k <;> rfl
  | contains k =>
    obtain ⟨ev, he⟩ := contains_spec s k hi
    exact ⟨s, by simp [step, he, specStep], hi, rfl⟩
  | len => exact ⟨s, by simp [step, specStep, len_spec s hi], hi, rfl⟩
  | wget k d =>
    obtain ⟨ev, he⟩ := getitem_spec s k hi
    refine ⟨s, ?_, hi, rfl⟩
    simp only [step, wget, he, Res.map_ok, specStep]
    cases SMap.lookup (abs s) k <;> rfl
  | wpop k d =>
    obtain ⟨ev, he⟩ := getitem_spec s k hi
    simp only [step, wpop, he, Res.bind_ok, specStep]
    cases hl : SMap.lookup (abs s) k with
    | none =>
      refine ⟨s, ?_, hi, rfl⟩
      simp only [Option.map_none, Res.map_ok]
    | some p =>
      obtain ⟨r, hd, hr⟩ := delitem_spec s k hi
      cases r with
      | none => rw [hl] at hr; cases hr
      | some q =>
        obtain ⟨s', ev'⟩ := q
        obtain ⟨h1, h2, _, h4, _⟩ := hr
        exact ⟨s', by simp [hd], h1, h2⟩
  | wsetdefault k d =>
    obtain ⟨ev, he⟩ := getitem_spec s k hi
    simp only [step, wsetdefault, he, Res.bind_ok, specStep]
    cases hl : SMap.lookup (abs s) k with
    | some p => exact ⟨s, by simp, hi, rfl⟩
    | none =>
      obtain ⟨s', ev', hs, h1, h2, h3, _⟩ := setitem_spec Cfg.repaired s k d hi
      exact ⟨s', by simp [hs], h1, h2⟩
  | wupdate its =>
    obtain ⟨s', he, h1, h2, h3⟩ := wupdate_spec its s hi
    exact ⟨s', by simp [step, he, specStep], h1, h2⟩
  | items => exact ⟨s, by simp [step, items_spec s hi, specStep], hi, rfl⟩
  | wpopitem =>
    have := wpopitem_spec s hi
    simp only [step, specStep]
    cases hm : abs s with
    | nil =>
      rw [hm] at this
      exact ⟨s, by simp [this], hi, hm⟩
    | cons p rest =>
      rw [hm] at this
      obtain ⟨s', he, h1, h2, _⟩ := this
      exact ⟨s', by simp [he], h1, h2⟩
  | wcopy =>
    obtain ⟨s', he, h1, h2, _⟩ := wcopy_spec s hi
    exact ⟨s', by simp [step, he, specStep], h1, h2⟩
  | wclear =>
    obtain ⟨s', he, h1, h2, _⟩ := wclear_spec s.size s hi rfl
    exact ⟨s', by simp [step, he, specStep], h1, h2⟩

def run : CState K V → List (Op K V) → Res (CState K V × List (Out K V))
  | s, [] => .ok (s, [])
  | s, op :: ops => (step s op).bind fun r => (run r.1 ops).map fun q => (q.1, r.2 :: q.2)

def specRun : List (K × V) → List (Op K V) → List (K × V) × List (Out K V)
  | m, [] => (m, [])
  | m, op :: ops => ((specRun (specStep m op).1 ops).1, (specStep m op).2 :: (specRun (specStep m op).1 ops).2)

theorem run_refines (ops : List (Op K V)) : ∀ (s : CState K V), CInv s →
    ∃ s', run s ops = .ok (s', (specRun (abs s) ops).2) ∧ CInv s' ∧ abs s' = (specRun (abs s) ops).1 := by
  induction ops with
  | nil => intro s hi; exact ⟨s, rfl, hi, rfl⟩
  | cons op ops ih =>
    intro s hi
    obtain ⟨s1, he, hi1, ha1⟩ := step_refines s op hi
    obtain ⟨s', h1, h2, h3⟩ := ih s1 hi1
    refine ⟨s', ?_, h2, ?_⟩
    · simp only [run, he, Res.bind_ok, h1, Res.map_ok, specRun, ha1]
    · simp only [specRun]; rw [← ha1]; exact h3

/-- **C12 (mapping part)**: every history from `BPlusTree(capacity=c)`, `4 ≤ c < 2^16`, answers like the reference -/
theorem refines_dict (c : Nat) (h4 : 4 ≤ c) (h16 : c < 2 ^ capacityBits) (ops : List (Op K V)) :
    ∃ s0 s', (new Cfg.repaired c : Option (CState K V)) = some s0 ∧
      run s0 ops = .ok (s', (specRun [] ops).2) ∧ CInv s' ∧ abs s' = (specRun [] ops).1 := by
  obtain ⟨s0, h0, hinv0, habs0, _, _⟩ := cinv_new (K := K) (V := V) Cfg.repaired c h4 h16
  obtain ⟨s', h1, h2, h3⟩ := run_refines ops s0 hinv0
  rw [habs0] at h1 h3
  exact ⟨s0, s', h0, h1, h2, h3⟩

/-- **iteration**: a drained `items()` iterator is exactly the contents in ascending key order, each entry once -/
theorem items_sorted_complete (s : CState K V) (hi : CInv s) : items s = .ok (abs s) ∧ SMap.Sorted (abs s) :=
  ⟨items_spec s hi, toList_sorted s.height s.root none none hi.ord⟩

/-- each `next()` on a fresh or partially consumed iterator over an unmodified tree yields the next entry
    (key or pair), or reports exhaustion when nothing is left; an exhausted iterator stays exhausted -/
theorem next_yields_head (s : CState K V) (hi : CInv s) (it : Iter) (R : List (K × V)) (hp : Pos s it R) :
    ∃ it', iterNext s it = .ok (it', outOf it.withValues R) ∧ Pos s it' R.tail :=
  let ⟨it', h1, h2, _⟩ := iterNext_pos s (walk_of_cinv s hi) it R hp
  ⟨it', h1, h2⟩

/-- **fail fast**: an iterator whose stamp differs from the tree's raises RuntimeError before it looks at any node -/
theorem iterator_fail_fast (s : CState K V) (it : Iter) (h : it.modc ≠ s.modc) :
    iterNext s it = .ok (it, .runtimeError) := by
  simp [iterNext, h]

/-- every successful mutation strictly increases the stamp … -/
theorem mutation_bumps_stamp (s : CState K V) (hi : CInv s) :
    (∀ k v s' ev, setitem Cfg.repaired s k v = .ok (s', ev) → s.modc < s'.modc) ∧
    (∀ k s' ev, delitem s k = .ok (some (s', ev)) → s.modc < s'.modc) := by
  constructor
  · intro k v s' ev he
    obtain ⟨s1, ev1, he1, _, _, _, hm⟩ := setitem_spec Cfg.repaired s k v hi
    rw [he] at he1; cases he1; exact hm
  · intro k s' ev he
    obtain ⟨r, he1, hr⟩ := delitem_spec s k hi
    rw [he] at he1
    cases he1
    exact hr.2.2.2.2

/-- … so an iterator created before a successful assignment is stale afterwards and its next step fails fast -/
theorem iterator_stale_after_set (s : CState K V) (hi : CInv s) (b : Bool) (k : K) (v : V) (s' : CState K V) (ev : Evs K V)
    (he : setitem Cfg.repaired s k v = .ok (s', ev)) :
    iterNext s' (iterNew s b) = .ok (iterNew s b, .runtimeError) := by
  apply iterator_fail_fast
  have := (mutation_bumps_stamp s hi).1 k v s' ev he
  show s.modc ≠ s'.modc
  omega

theorem iterator_stale_after_del (s : CState K V) (hi : CInv s) (b : Bool) (k : K) (s' : CState K V) (ev : Evs K V)
    (he : delitem s k = .ok (some (s', ev))) :
    iterNext s' (iterNew s b) = .ok (iterNew s b, .runtimeError) := by
  apply iterator_fail_fast
  have := (mutation_bumps_stamp s hi).2 k s' ev he
  show s.modc ≠ s'.modc
  omega

/-- non-vacuity: a concrete history through a leaf split -/
example : ∃ s0 s', (new Cfg.repaired 4 : Option (CState Int Nat)) = some s0 ∧
    run s0 [.set 1 10, .set 2 20, .set 3 30, .set 4 40, .set 5 50, .del 2, .get 3, .len, .wpopitem, .items] =
      .ok (s', [.unit, .unit, .unit, .unit, .unit, .unit, .val 30, .nat 4, .item 1 10, .list [(3, 30), (4, 40), (5, 50)]]) := by
  obtain ⟨s0, s', h0, h1, _, _⟩ := refines_dict (K := Int) (V := Nat) 4 (by omega) (by decide)
    [.set 1 10, .set 2 20, .set 3 30, .set 4 40, .set 5 50, .del 2, .get 3, .len, .wpopitem, .items]
  refine ⟨s0, s', h0, ?_⟩
  rw [h1]; rfl

/-! ### the search and comparison glue under the tree model (BPT/C/Search.lean) -/

/-- on every node of a valid tree the hand-written binary search `node_find_position` returns the position the tree
    model uses (`lowerBound`) — provided the comparison it is given is the key order -/
theorem binary_search_is_lower_bound (lt : K → K → Bool) (hlt : ∀ a b, lt a b = decide (ord a < ord b)) (ks : List K) (k : K)
    (hs : KSorted ks) : nodeFindPosition lt ks k = lowerBound ks k :=
  nodeFindPosition_eq lt hlt ks k hs

/-- the exact-int fast path of `fast_compare_lt` / `fast_compare_eq` (C `long` when both fit, rich comparison otherwise)
    is the integer order for ints of any size -/
theorem int_fast_path_is_order (a b : Int) : fastLtInt a b = decide (a < b) ∧ fastEqInt a b = decide (a = b) :=
  ⟨fastLtInt_eq a b, fastEqInt_eq a b⟩

/-- the exact-str fast path answers by the sign `PyUnicode_Compare` returned (a genuine −1 is "less", not a failure) and
    defers to rich comparison only when an error is set -/
theorem str_fast_path_is_sign (result : Int) (fallback : Bool) :
    fastLtStr result false fallback = decide (result < 0) ∧ fastEqStr result false fallback = decide (result = 0) ∧
    fastLtStr (-1) true fallback = fallback ∧ fastEqStr (-1) true fallback = fallback :=
  fastLtStr_spec result fallback

end BPT.Props.C12
