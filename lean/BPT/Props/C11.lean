import BPT.Props.C04
/-
  C11 — Rust map never leaks or duplicates the keys and values it stores (the logic part).

  Values are a multiset moved between the caller and the map: `values after ++ returned`
  is a permutation of `values before ++ inserted` for insert and remove, and the entry
  count is exactly the number of stored values.  Live keys held on the map's behalf are
  the leaf keys (one per entry) and the separator keys (clones).  Freed slots hold the
  default (empty) node and own nothing.  That `Vec`/arena drop runs each destructor
  exactly once is Rust's ownership discipline — observed by the harness's instance
  counters and tied by the translator inventory (`Tie.no_manual_ownership`), not proved here.
-/
namespace BPT.Props.C11
open BPT BPT.Rust Tree

variable {K V : Type} [Keyed K]

def vals (m : List (K × V)) : List V := m.map (·.2)

/-- insert: stored values afterwards + the displaced one = stored values before + the new one
    (so the displaced object is the very one that was stored, and nothing is duplicated or lost) -/
theorem insert_conserves (m : List (K × V)) (k : K) (v : V) (hs : SMap.Sorted m) :
    (vals (SMap.insert m k v) ++ ((SMap.lookup m k).map (·.2)).toList).Perm (v :: vals m) := by
  induction m with
  | nil => simp [SMap.insert, SMap.lookup, vals]
  | cons a m ih =>
    obtain ⟨ak, av⟩ := a
    have hs' := List.pairwise_cons.1 hs
    simp only [SMap.insert]
    by_cases h1 : ord k < ord ak
    · have hnone : SMap.lookup ((ak, av) :: m) k = none := by
        apply SMap.lookup_none_of_gt
        intro p hp
        rcases List.mem_cons.1 hp with rfl | hp
        · exact h1
        · have := hs'.1 p hp; simp at this; omega
      rw [hnone]
      simp [h1, vals]
    · by_cases h2 : ord k = ord ak
      · have hlook : SMap.lookup ((ak, av) :: m) k = some (ak, av) := by
          have e2 : (ord ak == ord k) = true := by simp [h2]
          simp [SMap.lookup, List.find?_cons, e2]
        rw [hlook, if_neg h1, if_pos h2]
        simp only [Option.map_some, Option.toList_some, vals, List.map_cons, List.cons_append]
        exact List.Perm.cons v (List.perm_append_singleton av _)
      · have e : (ord ak == ord k) = false := by simp; omega
        simp only [h1, h2, if_false, SMap.lookup, List.find?_cons, e, vals, List.map_cons, List.cons_append]
        have := ih hs'.2
        simp only [SMap.lookup, vals] at this
        exact (List.Perm.cons av this).trans (List.Perm.swap v av _)

/-- remove: stored values afterwards + the returned one = stored values before -/
theorem remove_conserves (m : List (K × V)) (k : K) :
    (vals (SMap.erase m k) ++ ((SMap.lookup m k).map (·.2)).toList).Perm (vals m) := by
  induction m with
  | nil => simp [SMap.erase, SMap.lookup, vals]
  | cons a m ih =>
    obtain ⟨ak, av⟩ := a
    simp only [SMap.erase]
    by_cases h2 : ord ak = ord k
    · have hlook : SMap.lookup ((ak, av) :: m) k = some (ak, av) := by
        have e2 : (ord ak == ord k) = true := by simp [h2]
        simp [SMap.lookup, List.find?_cons, e2]
      rw [hlook]
      simp only [h2, if_true, Option.map_some, Option.toList_some, vals, List.map_cons]
      exact List.perm_append_singleton av _
    · have e : (ord ak == ord k) = false := by simp [h2]
      simp only [h2, if_false, SMap.lookup, List.find?_cons, e, vals, List.map_cons, List.cons_append]
      have := ih
      simp only [SMap.lookup, vals] at this
      exact List.Perm.cons av this

/-- the number of value objects the map owns is `len()` (one per entry), on every reachable state -/
theorem live_values_eq_len (s : RState K V) (hi : Inv s) : (vals (abs s)).length = len s := by
  rw [len_spec s hi]; simp [vals]

/-- number of separator keys (clones held by branches) -/
def sepKeys : (h : Nat) → Tree K V h → Nat
  | 0, _ => 0
  | h+1, (b : Branch K (Tree K V h)) => b.keys.length + (b.children.map (sepKeys h)).sum

/-- number of key objects in leaves -/
def leafKeys (h : Nat) (t : Tree K V h) : Nat := ((leaves h t).map (fun l => l.keys.length)).sum

theorem leaf_keys_eq_len (s : RState K V) (hi : Inv s) : leafKeys s.height s.root = len s := by
  rw [len_spec s hi]
  unfold leafKeys abs toList
  rw [List.length_flatMap]
  congr 1
  apply List.map_congr_left
  intro l hl
  have := leaves_lens s.height s.root none none hi.ord l hl
  simp [Leaf.entries, List.length_zip]; omega

/-- live keys held on the map's behalf lie between `len()` and `len()` + number of separators -/
theorem live_keys_bounds (s : RState K V) (hi : Inv s) :
    len s ≤ leafKeys s.height s.root + sepKeys s.height s.root ∧
    leafKeys s.height s.root + sepKeys s.height s.root ≤ len s + sepKeys s.height s.root := by
  rw [leaf_keys_eq_len s hi]; omega

/-- slots that are not reachable hold the default (empty) node: they own no key or value -/
theorem freed_slots_default (s : RState K V) (i : Nat) (hi : i < s.al.leaf.len)
    (hfree : i ∉ (leaves s.height s.root).map (·.id)) :
    (view s).leaves.storage[i]? = some (dfltLeaf : RLeaf K V) ∧ (dfltLeaf : RLeaf K V).keys = [] ∧ (dfltLeaf : RLeaf K V).vals = [] := by
  refine ⟨?_, rfl, rfl⟩
  simp only [view, viewLeaves, List.getElem?_map, List.getElem?_range hi, Option.map_some]
  rw [find?_none_of_not_mem (fun (l : Leaf K V) => l.id) _ i hfree]

/-- after `clear` the single leaf owns nothing -/
theorem clear_owns_nothing (s : RState K V) : abs (clear s) = [] ∧ sepKeys (clear s).height (clear s).root = 0 := by
  refine ⟨?_, rfl⟩
  simp [abs, clear, freshState, toList, leaves, emptyLeaf, Leaf.entries]

/-- non-vacuity: at a concrete three-level state (`C02.demo_state`) the live values are exactly the entries -/
example : ∃ s : RState Int Nat, s.height = 2 ∧ (vals (abs s)).length = len s ∧ len s = 30 := by
  obtain ⟨s, hs, _, hh, hl, _⟩ := C02.demo_state
  have h1 := live_values_eq_len s hs.inv
  refine ⟨s, hh, h1, ?_⟩
  rw [← h1]; simpa [vals] using hl

end BPT.Props.C11
