import BPT.Rust.NoUB
/-
  C15 — Rust safe node/arena helper API cannot be used to reach undefined behaviour.

  The helpers (`get_leaf_mut`, `get_branch_mut`, `set_leaf_next`,
  `allocate_leaf/deallocate_leaf`, `LeafNode::push_*/take_*/append_*/…`) can put
  the arenas in *any* state, so the theorem quantifies over every `RawMap`
  whatsoever — no invariant is assumed.
-/
namespace BPT.Props.C15
open BPT BPT.Rust RawMap

variable {K V : Type} [Keyed K]

/-- **no raw state makes a reader perform an unchecked access outside its precondition** -/
theorem no_ub_from_any_state (m : RawMap K V) (lo hi : Bound K) (a b : Option K) (k : K) (e : Bound K) :
    NoUB (m.items Cfg.repaired) ∧ NoUB (m.itemsFast Cfg.repaired) ∧ NoUB (m.keys Cfg.repaired) ∧
    NoUB (m.values Cfg.repaired) ∧ NoUB (m.first Cfg.repaired) ∧ NoUB (m.last Cfg.repaired) ∧
    NoUB (m.range Cfg.repaired lo hi) ∧ NoUB (m.itemsRange Cfg.repaired a b) ∧ NoUB (m.itemsFromKey Cfg.repaired k e) ∧
    NoUB (m.get k) ∧ NoUB m.len :=
  readers_noub m lo hi a b k e

/-- validators too: they iterate through `keys()` and walk the arenas with checked lookups only -/
theorem validators_no_ub (m : RawMap K V) : NoUB (m.checkInvariants Cfg.repaired) ∧ NoUB (m.checkDetailed Cfg.repaired) :=
  checkDetailed_noub m

/-- every single `next()` call, in any iterator state over any raw map -/
theorem next_no_ub (m : RawMap K V) (f : Nat) (st : ItState K V) (r : RangeState K V) (fs : FastState K V) :
    NoUB (itemNext Cfg.repaired m f st) ∧ NoUB (rangeNext Cfg.repaired m f r) ∧ NoUB (fastNext Cfg.repaired m f fs) :=
  ⟨itemNext_noub _ rfl m f st, rangeNext_noub _ rfl m f r, fastNext_noub _ rfl m f fs⟩

/-- the public positioned constructors (`RangeIterator::new_with_skip_owned`,
    `ItemIterator::new_from_position_with_bounds`) are safe calls too: started at *any* `(leaf id, index)` — a free
    slot, an id never issued, the one-past-the-end index, with or without `skip_first` — on any raw map -/
theorem positioned_constructors_no_ub (m : RawMap K V) (info : Option (Nat × Nat)) (skip : Bool) (hi : Bound K)
    (leafId idx : Nat) (e : Bound K) :
    NoUB (m.rangeFrom Cfg.repaired info skip hi) ∧ NoUB (m.itemsFromPos Cfg.repaired leafId idx e) :=
  positioned_noub m info skip hi leafId idx e

/-- the defect as found (D4), on its witnesses: both patterns reach `ub` from safe calls; the repaired readers do not -/
theorem legacy_witnesses :
    (p1Witness.items { guardBoth := false } = .ub ∧ p1Witness.items Cfg.repaired = .ok []) ∧
    (p3Witness.itemsFast { fastChecked := false } = .ub ∧ p3Witness.itemsFast Cfg.repaired = .ok [(7, 70)]) :=
  ⟨Legacy.p1_unsafe_on_raw, Legacy.p3_unsafe_on_raw⟩

end BPT.Props.C15
