import BPT.Rust.NoUB
import BPT.Props.C03
/-
  C05 — Rust unchecked fast paths never touch unallocated or out-of-range slots (map-level API).

  The crate's only unchecked access on a map-level path is P1,
  `get_key_value_unchecked(i)` in `ItemIterator::try_get_next_item`
  (`Tie.unchecked_calls_catalogue`: every other call of an unchecked accessor is the
  body of another accessor; mutators, lookups, validators contain none).  In the
  model that read is `Res.ub` whenever `i` is outside the key or the value array.
-/
namespace BPT.Props.C05
open BPT BPT.Rust RawMap

variable {K V : Type} [Keyed K]

/-- every reader, on the view of every reachable state: no unchecked access outside its precondition -/
theorem readers_safe_on_reachable (s : RState K V) (lo hi : Bound K) (a b : Option K) (k : K) (e : Bound K) :
    NoUB ((view s).items Cfg.repaired) ∧ NoUB ((view s).itemsFast Cfg.repaired) ∧ NoUB ((view s).keys Cfg.repaired) ∧
    NoUB ((view s).values Cfg.repaired) ∧ NoUB ((view s).first Cfg.repaired) ∧ NoUB ((view s).last Cfg.repaired) ∧
    NoUB ((view s).range Cfg.repaired lo hi) ∧ NoUB ((view s).itemsRange Cfg.repaired a b) ∧
    NoUB ((view s).itemsFromKey Cfg.repaired k e) ∧ NoUB ((view s).get k) ∧ NoUB (view s).len :=
  readers_noub (view s) lo hi a b k e

/-- stronger on valid maps: P1 is in bounds even without the second guard (the code as found was safe on
    every map built through the map-level API) — iteration never reaches `ub` and yields the abstraction -/
theorem p1_safe_on_valid_maps_even_unguarded (s : RState K V) (hs : SInv s) (hsm : Small s) :
    (view s).items { guardBoth := false } = .ok (abs s) := view_items _ s hs hsm

/-- partially consumed iterators: every single `next()` call is safe, in any iterator state -/
theorem next_safe_any_state (m : RawMap K V) (f : Nat) (st : ItState K V) (r : RangeState K V) (fs : FastState K V) :
    NoUB (itemNext Cfg.repaired m f st) ∧ NoUB (rangeNext Cfg.repaired m f r) ∧ NoUB (fastNext Cfg.repaired m f fs) :=
  ⟨itemNext_noub _ rfl m f st, rangeNext_noub _ rfl m f r, fastNext_noub _ rfl m f fs⟩

/-- non-vacuity: at a concrete three-level state with freed slots (`C02.demo_state`) the unguarded P1 read stays in bounds -/
example : ∃ s : RState Int Nat, s.height = 2 ∧ s.al.leaf.free.length = 5 ∧ (view s).items { guardBoth := false } = .ok (abs s) := by
  obtain ⟨s, hs, hsm, hh, _, hf⟩ := C02.demo_state
  exact ⟨s, hh, hf, p1_safe_on_valid_maps_even_unguarded s hs hsm⟩

end BPT.Props.C05
