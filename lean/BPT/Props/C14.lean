import BPT.Rust.ValidatorSound
import BPT.Rust.BranchReach
import BPT.Rust.CheckedSpec
import BPT.Rust.Caps
/-
  C14 — Rust validators reject every documented kind of structural damage.

  `checkNode_sound` is proved for EVERY raw map (not only damaged valid ones):
  `check_invariants() = true` implies the declarative node conditions `NodeOK`
  for the root, hence (by `reach_ok`) for every node reachable from it.  The
  clauses of the property are the contrapositives below, one per damage kind.
-/
namespace BPT.Props.C14
open BPT BPT.Rust RawMap

variable {K V : Type} [Keyed K]

-- `Reach m n isRoot` (nodes reachable from the root through child references) is defined in BPT.Rust.BranchReach

/-- every reachable node satisfies the node conditions, for some interval -/
theorem reach_ok (m : RawMap K V) (h : m.checkInvariants Cfg.repaired = .ok true) :
    ∀ n r, Reach m n r → ∃ lo hi, NodeOK m n lo hi r := by
  intro n r hr
  induction hr with
  | root => exact ⟨none, none, checkInvariants_sound m h⟩
  | child id b r i c _ hg hc ih =>
    obtain ⟨lo, hi, hok⟩ := ih
    cases hok with
    | branch _ b' _ _ _ hg' _ _ _ _ hch =>
      rw [hg] at hg'
      cases hg'
      exact ⟨_, _, hch i c hc⟩

/-! ### one clause per documented kind of damage (contrapositives of soundness) -/

/-- a reference to a node that is not allocated -/
theorem rejects_dangling_reference (m : RawMap K V) (n : NodeRef) (r : Bool) (hr : Reach m n r)
    (hd : match n with | .leaf id => m.getLeaf id = none | .branch id => m.getBranch id = none) :
    m.checkInvariants Cfg.repaired ≠ .ok true := by
  intro h
  obtain ⟨lo, hi, hok⟩ := reach_ok m h n r hr
  cases hok with
  | leaf id l _ _ _ hg => simp only at hd; rw [hd] at hg; cases hg
  | branch id b _ _ _ hg => simp only at hd; rw [hd] at hg; cases hg

/-- a leaf whose keys are unsorted or duplicated, whose key and value counts differ, or which is above capacity -/
theorem rejects_bad_leaf (m : RawMap K V) (id : Nat) (l : RLeaf K V) (r : Bool) (hr : Reach m (.leaf id) r)
    (hg : m.getLeaf id = some l)
    (hbad : ¬ KSorted l.keys ∨ l.keys.length ≠ l.vals.length ∨ m.cap < l.keys.length) :
    m.checkInvariants Cfg.repaired ≠ .ok true := by
  intro h
  obtain ⟨lo, hi, hok⟩ := reach_ok m h _ r hr
  cases hok with
  | leaf _ l' _ _ _ hg' h1 h2 h3 =>
    rw [hg] at hg'; cases hg'
    rcases hbad with hb | hb | hb
    · exact hb h2
    · exact hb h1
    · omega

/-- a branch whose keys are unsorted or duplicated, whose child count is not its key count plus one, or which is above capacity -/
theorem rejects_bad_branch (m : RawMap K V) (id : Nat) (b : RBranch K) (r : Bool) (hr : Reach m (.branch id) r)
    (hg : m.getBranch id = some b)
    (hbad : ¬ KSorted b.keys ∨ b.keys.length + 1 ≠ b.children.length ∨ m.cap < b.keys.length) :
    m.checkInvariants Cfg.repaired ≠ .ok true := by
  intro h
  obtain ⟨lo, hi, hok⟩ := reach_ok m h _ r hr
  cases hok with
  | branch _ b' _ _ _ hg' h1 h2 h3 =>
    rw [hg] at hg'; cases hg'
    rcases hbad with hb | hb | hb
    · exact hb h2
    · exact hb h1
    · omega

/-- a non-root node below minimum occupancy — including an emptied one (D3) -/
theorem rejects_underfull (m : RawMap K V) (n : NodeRef) (hr : Reach m n false)
    (hu : match n with
      | .leaf id => ∃ l, m.getLeaf id = some l ∧ l.keys.length < minKeys l.cap
      | .branch id => ∃ b, m.getBranch id = some b ∧ b.keys.length < minKeys b.cap) :
    m.checkInvariants Cfg.repaired ≠ .ok true := by
  intro h
  obtain ⟨lo, hi, hok⟩ := reach_ok m h n false hr
  cases hok with
  | leaf id l _ _ _ hg _ _ _ h4 =>
    obtain ⟨l', hg', hlt⟩ := hu
    rw [hg] at hg'; cases hg'
    exact h4 rfl hlt
  | branch id b _ _ _ hg _ _ _ h4 =>
    obtain ⟨b', hg', hlt⟩ := hu
    rw [hg] at hg'; cases hg'
    exact h4 rfl hlt

/-- a leaf key outside the interval its parent's separators allow -/
theorem rejects_out_of_interval (m : RawMap K V) (pid : Nat) (b : RBranch K) (r : Bool) (i cid : Nat) (l : RLeaf K V) (k : K)
    (hr : Reach m (.branch pid) r) (hg : m.getBranch pid = some b) (hc : b.children[i]? = some (.leaf cid))
    (hl : m.getLeaf cid = some l) (hk : k ∈ l.keys)
    (hout : (∃ s, i ≠ 0 ∧ b.keys[i-1]? = some s ∧ ord k < ord s) ∨ (∃ s, i ≠ b.keys.length ∧ b.keys[i]? = some s ∧ ord s ≤ ord k)) :
    m.checkInvariants Cfg.repaired ≠ .ok true := by
  intro h
  obtain ⟨lo, hi, hok⟩ := reach_ok m h _ false (Reach.child pid b r i _ hr hg hc)
  obtain ⟨lo', hi', hpar⟩ := reach_ok m h _ r hr
  cases hpar with
  | branch _ b' _ _ _ hg' _ _ _ _ hch =>
    rw [hg] at hg'; cases hg'
    have hchild := hch i _ hc
    cases hchild with
    | leaf _ l' _ _ _ hgl _ _ _ _ hlo hhi =>
      rw [hl] at hgl; cases hgl
      rcases hout with ⟨s, hi0, hs, hlt⟩ | ⟨s, hil, hs, hle⟩
      · have := hlo s (by simp [hi0, hs]) k hk
        omega
      · have := hhi s (by simp [hil, hs]) k hk
        omega

/-! ### check_invariants_detailed / validate / validate_for_operation -/

/-- what `check_invariants_detailed() = Ok(())` establishes (the conjunction its five stages check) -/
theorem detailed_sound_partial (m : RawMap K V) (h : m.checkDetailed Cfg.repaired = .ok none) :
    NodeOK m m.root none none true ∧
    (∃ ks, m.keys Cfg.repaired = .ok ks ∧ strictlySorted ks = true ∧ m.len = .ok ks.length) ∧
    (∃ cnt, m.countNodes = .ok cnt ∧ cnt.1 = m.leaves.len ∧ cnt.2 = m.branches.len) ∧
    (∃ tids first cids, m.leafIds = .ok tids ∧ m.firstLeaf = .ok first ∧ m.chainIds m.fuel first = .ok cids ∧
      sortNat tids = sortNat cids) := by
  unfold RawMap.checkDetailed at h
  cases h1 : m.checkInvariants Cfg.repaired with
  | ok ok1 =>
    rw [h1] at h
    simp only [Res.bind_ok] at h
    cases ok1 with
    | false => simp at h
    | true =>
      simp only [not_true_eq_false, if_false] at h
      cases h2 : m.keys Cfg.repaired with
      | ok ks =>
        rw [h2] at h
        simp only [Res.bind_ok] at h
        split at h
        · simp at h
        · rename_i hsorted
          cases h3 : m.len with
          | ok n =>
            rw [h3] at h
            simp only [Res.bind_ok] at h
            split at h
            · simp at h
            · rename_i hlen
              cases h4 : m.countNodes with
              | ok cnt =>
                rw [h4] at h
                simp only [Res.bind_ok] at h
                split at h
                · simp at h
                · rename_i hc1
                  split at h
                  · simp at h
                  · rename_i hc2
                    cases h5 : m.leafIds with
                    | ok tids =>
                      rw [h5] at h
                      simp only [Res.bind_ok] at h
                      cases h6 : m.firstLeaf with
                      | ok first =>
                        rw [h6] at h
                        simp only [Res.bind_ok] at h
                        cases h7 : m.chainIds m.fuel first with
                        | ok cids =>
                          rw [h7] at h
                          simp only [Res.bind_ok] at h
                          split at h
                          · simp at h
                          · rename_i hids
                            refine ⟨checkInvariants_sound m h1, ⟨ks, rfl, by simpa using hsorted, ?_⟩, ⟨cnt, rfl, by simpa using hc1, by simpa using hc2⟩,
                              ⟨tids, first, cids, rfl, rfl, h7, by simpa using hids⟩⟩
                            have : ks.length = n := by simpa using hlen
                            rw [this]
                        | panic => rw [h7] at h; simp at h
                        | diverge => rw [h7] at h; simp at h
                        | ub => rw [h7] at h; simp at h
                      | panic => rw [h6] at h; simp at h
                      | diverge => rw [h6] at h; simp at h
                      | ub => rw [h6] at h; simp at h
                    | panic => rw [h5] at h; simp at h
                    | diverge => rw [h5] at h; simp at h
                    | ub => rw [h5] at h; simp at h
              | panic => rw [h4] at h; simp at h
              | diverge => rw [h4] at h; simp at h
              | ub => rw [h4] at h; simp at h
          | panic => rw [h3] at h; simp at h
          | diverge => rw [h3] at h; simp at h
          | ub => rw [h3] at h; simp at h
      | panic => rw [h2] at h; simp at h
      | diverge => rw [h2] at h; simp at h
      | ub => rw [h2] at h; simp at h
  | panic => rw [h1] at h; simp at h
  | diverge => rw [h1] at h; simp at h
  | ub => rw [h1] at h; simp at h

/-- per-node capacity fields are intact (no documented damage kind touches them) and leave room for two keys -/
def CapsIntact (m : RawMap K V) : Prop := (∀ id l, m.getLeaf id = some l → l.cap = m.cap) ∧ 2 ≤ m.cap

/-- `CapsIntact` is no extra assumption for maps the model's API builds: the arena view of every model state gives
    each stored node the map's capacity (capacity >= 4 for every accepted constructor argument).  In the crate each
    node carries its own `capacity` field, which the node-level policy and the validators read; that those fields
    equal the map's capacity is the modelling convention the structural dump checks on every dump line
    (`id:[cap=… keys=…]` prints the node's own field) — a constructor, `clear()` or split that builds a node with
    another capacity is a dump difference at once, and is exactly the situation in which the crate's validators
    stop being sound for the occupancy clause (they would judge a node by its own, wrong, capacity). -/
theorem api_built_caps_intact (s : RState K V) (h : 2 ≤ s.cap) : CapsIntact (view s) :=
  ⟨fun id l hl => view_getLeaf_cap s id l hl, h⟩

/-- **Soundness of `check_invariants_detailed() = Ok(())` beyond the node level**, for every raw map with intact
    capacity fields: the walk along `next` from the leftmost leaf lists exactly the leaves the tree walk lists, in the
    same (ascending) order, no leaf twice, and every allocated leaf slot is among them. -/
theorem detailed_sound (m : RawMap K V) (hc : CapsIntact m) (h : m.checkDetailed Cfg.repaired = .ok none) :
    ∃ ids first, m.leafIds = .ok ids ∧ m.firstLeaf = .ok first ∧ m.chainIds m.fuel first = .ok ids ∧
      ids.Nodup ∧ ids.Pairwise (Before m) ∧ (∀ i, m.leaves.maskAt i = true → i ∈ ids) ∧
      (∀ i, m.leaves.maskAt i = true → ∃ r, Reach m (.leaf i) r) ∧
      (∀ i, m.branches.maskAt i = true → ∃ r, Reach m (.branch i) r) := by
  obtain ⟨hroot, ⟨ks, hks, hsorted, _⟩, ⟨cnt, hcnt, hcl, hcb⟩, ⟨tids, first, cids, h1, h2, h3, h4⟩⟩ := detailed_sound_partial m h
  obtain ⟨e1, e2, e3, e4⟩ := chain_eq_tree m hc.1 hc.2 hroot ks hks hsorted cnt hcnt hcl tids cids first h1 h2 h3 h4
  have hcaps : CapsOK m := fun id l hg => by rw [hc.1 id l hg]; exact hc.2
  exact ⟨tids, first, h1, h2, e1 ▸ h3, e2, e3, e4, fun i hi => leaves_reachable m tids h1 i (e4 i hi),
    branches_reachable m hcaps hroot cnt hcnt hcb tids h1 e2⟩

/-- a leaf chain that skips, truncates or misorders leaves, or leads to an unallocated slot: whenever the walk along
    `next` does not list exactly the tree's leaves in tree order, the detailed validators return an error
    (a cyclic chain makes them loop forever, which is not `Ok(())` either) -/
theorem rejects_chain_damage (m : RawMap K V) (hc : CapsIntact m) (tids : List Nat) (first : Option Nat)
    (ht : m.leafIds = .ok tids) (hf : m.firstLeaf = .ok first) (hbad : m.chainIds m.fuel first ≠ .ok tids) :
    m.checkDetailed Cfg.repaired ≠ .ok none := by
  intro h
  obtain ⟨ids, first', h1, h2, h3, _⟩ := detailed_sound m hc h
  rw [ht] at h1
  rw [hf] at h2
  cases h1; cases h2
  exact hbad h3

/-- an allocated node (leaf or branch) that is unreachable from the root -/
theorem rejects_unreachable_node (m : RawMap K V) (hc : CapsIntact m) (n : NodeRef)
    (halloc : match n with | .leaf i => m.leaves.maskAt i = true | .branch i => m.branches.maskAt i = true)
    (horphan : ∀ r, ¬ Reach m n r) :
    m.checkDetailed Cfg.repaired ≠ .ok none := by
  intro h
  obtain ⟨_, _, _, _, _, _, _, _, h7, h8⟩ := detailed_sound m hc h
  cases n with
  | leaf i => obtain ⟨r, hr⟩ := h7 i halloc; exact horphan r hr
  | branch i => obtain ⟨r, hr⟩ := h8 i halloc; exact horphan r hr

/-- an allocated leaf that the tree walk does not list -/
theorem rejects_orphan_leaf (m : RawMap K V) (hc : CapsIntact m) (tids : List Nat) (ht : m.leafIds = .ok tids)
    (i : Nat) (halloc : m.leaves.maskAt i = true) (horphan : i ∉ tids) :
    m.checkDetailed Cfg.repaired ≠ .ok none := by
  intro h
  obtain ⟨ids, _, h1, _, _, _, _, h6, _⟩ := detailed_sound m hc h
  rw [ht] at h1
  cases h1
  exact horphan (h6 i halloc)

/-- whatever `check_invariants()` rejects, the detailed validators reject too (so every node-level damage kind is
    also refused by `validate()`, `validate_for_operation()`, `try_insert`, `try_remove`) -/
theorem detailed_rejects_what_basic_rejects (m : RawMap K V) (h : m.checkInvariants Cfg.repaired ≠ .ok true) :
    m.checkDetailed Cfg.repaired ≠ .ok none := by
  intro hd
  have := (detailed_sound_partial m hd).1
  apply h
  -- `checkDetailed = ok none` went through the first stage
  unfold RawMap.checkDetailed at hd
  cases h1 : m.checkInvariants Cfg.repaired with
  | ok b => cases b with
    | true => rfl
    | false => rw [h1] at hd; simp at hd
  | panic => rw [h1] at hd; simp at hd
  | diverge => rw [h1] at hd; simp at hd
  | ub => rw [h1] at hd; simp at hd

/-- `try_insert` / `try_remove` / `batch_insert` / `validate_for_operation` on a map the detailed validation rejects: they
    return a data-integrity error at their first statement, before anything is written (`checkedEntry`); for a typed
    state this is `refuse_unchanged`: the returned map is the one passed in -/
theorem checked_mutators_refuse (m : RawMap K V) (h : m.checkDetailed Cfg.repaired ≠ .ok none) :
    checkedEntry Cfg.repaired m = some .dataIntegrity :=
  checkedEntry_refuses Cfg.repaired m h

theorem checked_mutators_leave_unchanged (cfg : Cfg) (s : RState K V) (h : (view s).checkDetailed cfg ≠ .ok none) (k : K) (v : V)
    (rest : List (K × V)) :
    tryInsert cfg s k v = some (s, .error .dataIntegrity) ∧ tryRemove cfg s k = some (s, .error .dataIntegrity) ∧
    batchInsert cfg s ((k, v) :: rest) = some (s, .error .dataIntegrity) ∧ validateForOperation cfg s = .error .dataIntegrity := by
  apply refuse_unchanged
  unfold validOk
  rw [checkedEntry_refuses cfg (view s) h]
  rfl

/-! ### D3 as found: an emptied non-root leaf passed both validators -/

/-- root branch `[10]` over leaves `L0 = []` (emptied through take_keys/take_values) and `L1 = [10, 11]`, capacity 4 -/
def emptiedLeaf : RawMap Int Nat :=
  { cap := 4, root := .branch 0,
    leaves := { storage := [{ cap := 4, keys := [], vals := [], next := 1 }, { cap := 4, keys := [10, 11], vals := [100, 110], next := nullId }],
                mask := [true, true], free := [] },
    branches := { storage := [{ cap := 4, keys := [10], children := [.leaf 0, .leaf 1] }], mask := [true], free := [] } }

theorem Legacy.validator_accepts_empty_leaf :
    emptiedLeaf.checkInvariants { validatorChecksEmpty := false } = .ok true ∧
    emptiedLeaf.checkDetailed { validatorChecksEmpty := false } = .ok none ∧
    emptiedLeaf.checkInvariants Cfg.repaired = .ok false ∧
    emptiedLeaf.checkDetailed Cfg.repaired = .ok (some .nodeInvariants) := by decide

/-! ### the hypotheses of `detailed_sound` / `rejects_chain_damage` are met by concrete maps -/

/-- root branch `[5, 9]` over leaves `A = [1, 2]`, `B = [5, 6]`, `C = [9, 10]`, capacity 4; the `next` fields are parameters -/
def threeLeaves (nA nB nC : Nat) (extra : List (RLeaf Int Nat)) : RawMap Int Nat :=
  { cap := 4, root := .branch 0,
    leaves := { storage := [{ cap := 4, keys := [1, 2], vals := [10, 20], next := nA }, { cap := 4, keys := [5, 6], vals := [50, 60], next := nB },
                            { cap := 4, keys := [9, 10], vals := [90, 100], next := nC }] ++ extra,
                mask := [true, true, true] ++ extra.map (fun _ => true), free := [] },
    branches := { storage := [{ cap := 4, keys := [5, 9], children := [.leaf 0, .leaf 1, .leaf 2] }], mask := [true], free := [] } }

theorem threeLeaves_caps (nA nB nC : Nat) : CapsIntact (threeLeaves nA nB nC []) := by
  refine ⟨?_, by show 2 ≤ 4; omega⟩
  intro id l h
  have h' := (arena_get_some _ _ _ h).2.2.2
  match id, h' with
  | 0, h' => cases h'; rfl
  | 1, h' => cases h'; rfl
  | 2, h' => cases h'; rfl
  | n+3, h' => simp [threeLeaves] at h'

/-- the healthy map passes (so `detailed_sound` is not vacuous) ... -/
example : CapsIntact (threeLeaves 1 2 nullId []) ∧ (threeLeaves 1 2 nullId []).checkDetailed Cfg.repaired = .ok none :=
  ⟨threeLeaves_caps _ _ _, by decide⟩
/-- ... and each kind of chain damage gives a map that meets the hypotheses of `rejects_chain_damage`
    (same tree walk, different chain walk) and is refused at the stage shown -/
example : (threeLeaves 2 2 nullId []).checkDetailed Cfg.repaired = .ok (some .iterCount) ∧          -- skip B
          (threeLeaves 1 nullId nullId []).checkDetailed Cfg.repaired = .ok (some .iterCount) ∧     -- truncate after B
          (threeLeaves 2 nullId 1 []).checkDetailed Cfg.repaired = .ok (some .iterUnsorted) ∧       -- misorder: A, C, B
          (threeLeaves 1 7 nullId []).checkDetailed Cfg.repaired = .ok (some .iterCount) ∧          -- B leads to an unallocated slot
          (threeLeaves 1 2 nullId [{ cap := 4, keys := [20, 21], vals := [0, 0], next := nullId }]).checkDetailed Cfg.repaired
            = .ok (some .leafCount) := by decide                                                      -- orphan allocated leaf
example : (threeLeaves 2 nullId 1 []).leafIds = .ok [0, 1, 2] ∧ (threeLeaves 2 nullId 1 []).firstLeaf = .ok (some 0) ∧
          (threeLeaves 2 nullId 1 []).chainIds (threeLeaves 2 nullId 1 []).fuel (some 0) = .ok [0, 2, 1] := by decide

end BPT.Props.C14
