import BPT.Props.C04
/-
  C10 — Rust checked/bulk API and constructors agree with the basic operations.

  `try_get`, `get_item`, `remove_item` are `get`/`remove` followed by `ok_or(KeyNotFound)`;
  `try_insert`, `try_remove`, `batch_insert`, `validate_for_operation` additionally run
  `check_invariants_detailed`.  The wrappers themselves are modelled in the driver
  (Driver/RustDrv.lean) and compared call by call with the implementation; the theorems
  here give what they rest on.
-/
namespace BPT.Props.C10
open BPT BPT.Rust

variable {K V : Type} [Keyed K]

/-- `new(c)` / `empty(c)` fail with InvalidCapacity exactly when `c < 4`, for every `c` -/
theorem new_rejects_iff (c : Nat) : (new c : Option (RState K V)) = none ↔ c < 4 := by
  unfold new minCapacity
  constructor
  · intro h; by_cases hc : c < 4
    · exact hc
    · simp [hc] at h
  · intro h; simp [h]

/-- otherwise they produce an empty, valid map of that capacity -/
theorem new_ok (c : Nat) (hc : 4 ≤ c) :
    ∃ s, (new c : Option (RState K V)) = some s ∧ SInv s ∧ abs s = [] ∧ s.cap = c ∧ len s = 0 := by
  obtain ⟨s, he, hi, ha, hcap⟩ := (new_spec (K := K) (V := V) c).2 hc
  have hs : s = freshState c := by
    have : ¬ c < minCapacity := by simp [minCapacity]; omega
    simp [new, this] at he; exact he.symm
  refine ⟨s, he, hs ▸ sinv_fresh c hc, ha, hcap, ?_⟩
  rw [len_spec s hi, ha]; rfl

/-- `Default` / `with_default_capacity` always succeed (the default capacity is accepted) -/
theorem default_ok : ∃ s, (new defaultCapacity : Option (RState K V)) = some s ∧ SInv s :=
  let ⟨s, he, hs, _⟩ := new_ok (K := K) (V := V) defaultCapacity (by decide); ⟨s, he, hs⟩

/-- `try_get` / `get_item`: `get(k).ok_or(KeyNotFound)` — KeyNotFound exactly when the key is absent -/
theorem try_get_spec (s : RState K V) (k : K) (hi : Inv s) :
    ((get s k).map (·.2)).isNone ↔ SMap.lookup (abs s) k = none := by
  rw [get_spec s k hi]; cases SMap.lookup (abs s) k <;> simp

/-- `get_many`: fails iff some requested key is absent, otherwise the values in request order -/
def getMany (s : RState K V) : List K → Option (List V)
  | [] => some []
  | k :: ks => match get s k with
    | none => none
    | some p => (getMany s ks).map (p.2 :: ·)

theorem get_many_spec (s : RState K V) (ks : List K) (hi : Inv s) :
    (getMany s ks = none ↔ ∃ k ∈ ks, SMap.lookup (abs s) k = none) ∧
    (∀ vs, getMany s ks = some vs → vs = ks.filterMap (fun k => (SMap.lookup (abs s) k).map (·.2)) ∧ vs.length = ks.length) := by
  induction ks with
  | nil => simp [getMany]
  | cons k ks ih =>
    simp only [getMany]
    rw [get_spec s k hi]
    cases hl : SMap.lookup (abs s) k with
    | none => simp [hl]
    | some p =>
      simp only [List.mem_cons, exists_eq_or_imp, hl, reduceCtorEq, false_or, Option.map_eq_none_iff]
      refine ⟨ih.1, ?_⟩
      intro vs hvs
      cases hg : getMany s ks with
      | none => simp [hg] at hvs
      | some vs' =>
        simp only [hg, Option.map_some, Option.some.injEq] at hvs
        obtain ⟨h1, h2⟩ := ih.2 vs' hg
        subst hvs
        simp [List.filterMap_cons, hl, ← h1, h2]

/-- `batch_insert` = the same inserts one by one, results in order (no step fails on a valid map) -/
theorem batch_insert_eq_fold (s : RState K V) (items : List (K × V)) (hi : Inv s) :
    C01.run s (items.map fun p => C01.Op.insert p.1 p.2) =
      some (C01.specRun (abs s) (items.map fun p => C01.Op.insert p.1 p.2)) :=
  C01.run_refines _ s hi

/-- the integrity checks that `try_insert` / `try_remove` / `batch_insert` / `validate_for_operation` run
    (`check_invariants_detailed`) succeed on every state built through the map-level API: they never
    report a data-integrity, arena or corruption error there -/
theorem validate_for_operation_ok (s : RState K V) (hs : SInv s) (hsm : Small s) :
    (view s).checkDetailed Cfg.repaired = .ok none ∧ (view s).checkInvariants Cfg.repaired = .ok true :=
  ⟨view_checkDetailed s hs hsm, view_checkInvariants s hs hsm⟩

end BPT.Props.C10
