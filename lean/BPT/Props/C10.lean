import BPT.Props.C04
import BPT.Rust.CheckedSpec
/-
  C10 — Rust checked/bulk API and constructors agree with the basic operations.

  `try_get`, `get_item`, `remove_item` are `get`/`remove` followed by `ok_or(KeyNotFound)`;
  `try_insert`, `try_remove`, `batch_insert`, `validate_for_operation` additionally run
  `check_invariants_detailed`.  The wrappers are model functions (BPT/Rust/Checked.lean, a
  transcription of the source text pinned by the tie lemmas `Tie.rust_src_*_eq`); the driver
  runs those same functions against the implementation call by call.
-/
namespace BPT.Props.C10
open BPT BPT.Rust

variable {K V : Type} [Keyed K]

/-- `new(c)` / `empty(c)` fail with InvalidCapacity exactly when `c < 4`, for every `c` -/
theorem new_rejects_iff (c : Nat) : (new c : Option (RState K V)) = none ↔ c < 4 := by
  unfold new minCapacity
  constructor
  · intro h; by_cases hc : c < 4
    · exact hc
    · simp [hc] at h
  · intro h; simp [h]

/-- otherwise they produce an empty, valid map of that capacity -/
theorem new_ok (c : Nat) (hc : 4 ≤ c) :
    ∃ s, (new c : Option (RState K V)) = some s ∧ SInv s ∧ abs s = [] ∧ s.cap = c ∧ len s = 0 := by
  obtain ⟨s, he, hi, ha, hcap⟩ := (new_spec (K := K) (V := V) c).2 hc
  have hs : s = freshState c := by
    have : ¬ c < minCapacity := by simp [minCapacity]; omega
    simp [new, this] at he; exact he.symm
  refine ⟨s, he, hs ▸ sinv_fresh c hc, ha, hcap, ?_⟩
  rw [len_spec s hi, ha]; rfl

/-- `Default` / `with_default_capacity` always succeed (the default capacity is accepted) -/
theorem default_ok : ∃ s, (new defaultCapacity : Option (RState K V)) = some s ∧ SInv s :=
  let ⟨s, he, hs, _⟩ := new_ok (K := K) (V := V) defaultCapacity (by decide); ⟨s, he, hs⟩

/-- `try_get` / `get_item`: `get(k).ok_or(KeyNotFound)` — KeyNotFound exactly when the key is absent -/
theorem try_get_spec (s : RState K V) (k : K) (hi : Inv s) :
    ((get s k).map (·.2)).isNone ↔ SMap.lookup (abs s) k = none := by
  rw [get_spec s k hi]; cases SMap.lookup (abs s) k <;> simp

/-- `get_many`: fails iff some requested key is absent, otherwise the values in request order -/
def getMany (s : RState K V) : List K → Option (List V)
  | [] => some []
  | k :: ks => match get s k with
    | none => none
    | some p => (getMany s ks).map (p.2 :: ·)

theorem get_many_spec (s : RState K V) (ks : List K) (hi : Inv s) :
    (getMany s ks = none ↔ ∃ k ∈ ks, SMap.lookup (abs s) k = none) ∧
    (∀ vs, getMany s ks = some vs → vs = ks.filterMap (fun k => (SMap.lookup (abs s) k).map (·.2)) ∧ vs.length = ks.length) := by
  induction ks with
  | nil => simp [getMany]
  | cons k ks ih =>
    simp only [getMany]
    rw [get_spec s k hi]
    cases hl : SMap.lookup (abs s) k with
    | none => simp [hl]
    | some p =>
      simp only [List.mem_cons, exists_eq_or_imp, hl, reduceCtorEq, false_or, Option.map_eq_none_iff]
      refine ⟨ih.1, ?_⟩
      intro vs hvs
      cases hg : getMany s ks with
      | none => simp [hg] at hvs
      | some vs' =>
        simp only [hg, Option.map_some, Option.some.injEq] at hvs
        obtain ⟨h1, h2⟩ := ih.2 vs' hg
        subst hvs
        simp [List.filterMap_cons, hl, ← h1, h2]

/-- `batch_insert` = the same inserts one by one, results in order (no step fails on a valid map) -/
theorem batch_insert_eq_fold (s : RState K V) (items : List (K × V)) (hi : Inv s) :
    C01.run s (items.map fun p => C01.Op.insert p.1 p.2) =
      some (C01.specRun (abs s) (items.map fun p => C01.Op.insert p.1 p.2)) :=
  C01.run_refines _ s hi

/-- the integrity checks that `try_insert` / `try_remove` / `batch_insert` / `validate_for_operation` run
    (`check_invariants_detailed`) succeed on every state built through the map-level API: they never
    report a data-integrity, arena or corruption error there -/
theorem validate_for_operation_ok (s : RState K V) (hs : SInv s) (hsm : Small s) :
    (view s).checkDetailed Cfg.repaired = .ok none ∧ (view s).checkInvariants Cfg.repaired = .ok true :=
  ⟨view_checkDetailed s hs hsm, view_checkInvariants s hs hsm⟩

/-! ### the wrappers themselves (model: BPT/Rust/Checked.lean) -/

/-- `try_insert` has exactly the effect and result of `insert` (and panics exactly when `insert` does) -/
theorem try_insert_eq_insert (s : RState K V) (k : K) (v : V) (hs : SInv s) (hsm : Small s) :
    (∀ s' old, insert s k v = some (s', old) → Small s' → tryInsert Cfg.repaired s k v = some (s', .ok old)) ∧
    (insert s k v = none → tryInsert Cfg.repaired s k v = none) :=
  ⟨fun s' old he hsm' => tryInsert_spec s s' k v old hs hsm he hsm', tryInsert_none s k v hs hsm⟩

/-- `try_remove` and `remove_item` have exactly the effect of `remove`; they report KeyNotFound exactly when the key is absent
    and otherwise return the removed value -/
theorem try_remove_eq_remove (s : RState K V) (k : K) (hs : SInv s) (hsm : Small s) :
    ∃ s' r, remove s k = some (s', r) ∧ r = (SMap.lookup (abs s) k).map (·.2) ∧
      tryRemove Cfg.repaired s k = some (s', okOrKeyNotFound r) ∧ removeItem s k = some (s', okOrKeyNotFound r) ∧
      (okOrKeyNotFound r = .error .keyNotFound ↔ SMap.lookup (abs s) k = none) ∧ abs s' = SMap.erase (abs s) k := by
  obtain ⟨s', old, he, _, habs, hold, _⟩ := remove_spec s k hs.inv
  exact ⟨s', old, he, hold, tryRemove_spec s s' k old hs hsm he, removeItem_spec s s' k old he,
    hold ▸ okOr_keyNotFound_iff _ _, habs⟩

/-- `try_get` / `get_item`: the stored value, or KeyNotFound exactly when the key is absent -/
theorem try_get_eq_get (s : RState K V) (k : K) (hi : Inv s) :
    tryGet s k = okOrKeyNotFound ((SMap.lookup (abs s) k).map (·.2)) ∧
    (tryGet s k = .error .keyNotFound ↔ SMap.lookup (abs s) k = none) := by
  rw [tryGet_spec s k hi]
  exact ⟨rfl, okOr_keyNotFound_iff _ _⟩

/-- `get_many`: fails iff some requested key is absent, otherwise one value per request, in request order -/
theorem get_many_model_spec (s : RState K V) (ks : List K) (hi : Inv s) :
    ((∃ k ∈ ks, SMap.lookup (abs s) k = none) → getManyE s ks = .error .keyNotFound) ∧
    ((∀ k ∈ ks, SMap.lookup (abs s) k ≠ none) →
      getManyE s ks = .ok (ks.filterMap (fun k => (SMap.lookup (abs s) k).map (·.2))) ∧
      (ks.filterMap (fun k => (SMap.lookup (abs s) k).map (·.2))).length = ks.length) :=
  getManyE_spec s hi ks

/-- `batch_insert` = the same inserts one by one, results in order; never an error on an API-built map -/
theorem batch_insert_eq_inserts (s : RState K V) (items : List (K × V)) (hs : SInv s) (hsm : SmallRun s items) :
    batchInsert Cfg.repaired s items = (insertAll s items).map fun r => (r.1, .ok r.2) :=
  batchInsert_spec s items hs hsm

/-- on maps built through the map-level API the checked calls never report an integrity error -/
theorem never_integrity_error (s : RState K V) (hs : SInv s) (hsm : Small s) :
    validateForOperation Cfg.repaired s = .ok () ∧ checkedEntry Cfg.repaired (view s) = none := by
  refine ⟨validateForOperation_ok s hs hsm, ?_⟩
  have := validOk_of_sinv s hs hsm
  unfold validOk at this
  cases h : checkedEntry Cfg.repaired (view s) with
  | none => rfl
  | some e => rw [h] at this; cases this

/-- the hypotheses of `batch_insert_eq_inserts` (and of the other wrapper theorems) are met by a concrete state and batch -/
example : SInv (freshState 4 : RState Int Nat) ∧ SmallRun (freshState 4 : RState Int Nat) [(1, 10)] := by
  refine ⟨sinv_fresh 4 (by decide), by unfold Small; decide, ?_⟩
  intro s' old he
  have hd : (match insert (freshState 4 : RState Int Nat) 1 10 with
      | some p => decide (p.1.al.leaf.len ≤ nullId ∧ p.1.al.branch.len ≤ nullId)
      | none => true) = true := by decide
  rw [he] at hd
  simpa [SmallRun, Small] using hd

end BPT.Props.C10
