import BPT.Generated.Source
import BPT.Py.Model
/-
  Tie lemmas for the pure-Python model: what tools/extract_py.py regenerated from
  python/bplustree/bplus_tree.py equals what BPT/Py/Model.lean was transcribed from.
  Arithmetic policy is compared as functions; control-flow shapes (order of sibling
  attempts, guards of merges, how `get` decides presence, ...) are compared as the
  normalised source text the model was written against, so an edit of any of these
  functions breaks an obligation here.
-/
namespace BPT.TiePy
open BPT BPT.Generated

/-! ### constants, constructor, thresholds -/
theorem py_min_capacity : py_MIN_CAPACITY = Py.minCapacity := rfl
theorem py_ctor_rejects_eq (c : Nat) : py_ctor_rejects c = decide (c < Py.minCapacity) := rfl
theorem py_leaf_is_full_eq (cap n : Nat) : py_leaf_is_full cap n = Py.isFull cap n := rfl
theorem py_branch_is_full_eq (cap n : Nat) : py_branch_is_full cap n = Py.isFull cap n := rfl
theorem py_leaf_is_underfull_eq (cap n : Nat) : py_leaf_is_underfull cap n = Py.isUnderfull cap n := rfl
theorem py_branch_is_underfull_eq (cap n : Nat) : py_branch_is_underfull cap n = Py.isUnderfull cap n := rfl
theorem py_leaf_can_donate_eq (cap n : Nat) : py_leaf_can_donate cap n = Py.canDonate cap n := rfl
theorem py_branch_can_donate_eq (cap n : Nat) : py_branch_can_donate cap n = Py.canDonate cap n := rfl
theorem py_leaf_split_mid_eq (n : Nat) : py_leaf_split_mid n = Py.splitMid n := rfl
theorem py_branch_split_mid_eq (n : Nat) : py_branch_split_mid n = Py.splitMid n := rfl

/-! ### repaired-defect switches (`Cfg.repaired`) are what the code does now -/
theorem py_get_checks_presence_eq : py_get_checks_presence = Py.Cfg.repaired.getChecksPresence := rfl
theorem py_empty_shortcut_leaf_only_eq : py_empty_shortcut_leaf_only = Py.Cfg.repaired.emptyShortcutLeafOnly := rfl
/-- D7: `__len__` is a loop over the chain (the model's `len` is a fold over `chain`) -/
theorem py_len_iterative_eq : py_len_iterative = true := rfl

/-! ### the source text the model was transcribed from -/

theorem py_leaf_split_shape_eq : py_leaf_split_shape =
    "mid = len(self.keys) // 2 ; new_leaf = LeafNode(self.capacity) ; new_leaf.keys = self.keys[mid:] ; new_leaf.values = self.values[mid:] ; self.keys = self.keys[:mid] ; self.values = self.values[:mid] ; new_leaf.next = self.next ; self.next = new_leaf" := rfl
theorem py_leaf_split_side_eq : py_leaf_split_side =
    "key < new_leaf.keys[0] ? self.insert(key, value) : new_leaf.insert(key, value)" := rfl
theorem py_leaf_split_ret_eq : py_leaf_split_ret =
    "(new_leaf, new_leaf.keys[0])" := rfl
theorem py_branch_split_shape_eq : py_branch_split_shape =
    "mid = len(self.keys) // 2 ; new_branch = BranchNode(self.capacity) ; separator_key = self.keys[mid] ; new_branch.keys = self.keys[mid + 1:] ; new_branch.children = self.children[mid + 1:] ; self.keys = self.keys[:mid] ; self.children = self.children[:mid + 1] ; return (new_branch, separator_key)" := rfl
theorem py_branch_insert_shape_eq : py_branch_insert_shape =
    "self.keys.insert(child_index, separator_key) ; self.children.insert(child_index + 1, new_child) ; if not self.is_full(): return None ; return self.split()" := rfl
theorem py_leaf_find_position_eq : py_leaf_find_position =
    "pos = bisect.bisect_left(self.keys, key) ; exists = pos < len(self.keys) and self.keys[pos] == key ; return (pos, exists)" := rfl
theorem py_branch_find_child_eq : py_branch_find_child =
    "bisect.bisect_right(self.keys, key)" := rfl
theorem py_insert_into_leaf_tests_eq : py_insert_into_leaf_tests =
    "exists ; not leaf.is_full()" := rfl
theorem py_delete_tests_eq : py_delete_tests =
    "node.is_leaf() ; not deleted ; len(child) == 0 or child.is_underfull() ; node == self.root and (not node.is_leaf()) and (len(node.children) == 1)" := rfl
theorem py_underflow_tests_eq : py_underflow_tests =
    "not child.is_underfull() ; len(child) == 0 and child.is_leaf() ; child_index < len(parent.children) - 1 ; not redistributed and child_index > 0 ; not redistributed ; right_sibling.can_donate() ; left_sibling.can_donate()" := rfl
theorem py_underflow_calls_eq : py_underflow_calls =
    "self._merge_with_sibling ; self._merge_with_sibling ; self._redistribute_from_right ; self._redistribute_from_left" := rfl
theorem py_merge_guards_eq : py_merge_guards =
    "total_keys <= self.capacity ; total_keys <= self.capacity and total_children <= self.capacity + 1 ; total_keys <= self.capacity ; total_keys <= self.capacity and total_children <= self.capacity + 1" := rfl
theorem py_merge_totals_eq : py_merge_totals =
    "len(left_sibling.keys) + len(child.keys) ; len(left_sibling.keys) + len(child.keys) + 1 ; len(child.keys) + len(right_sibling.keys) ; len(child.keys) + len(right_sibling.keys) + 1 ; len(left_sibling.children) + len(child.children) ; len(child.children) + len(right_sibling.children)" := rfl
theorem py_merge_side_tests_eq : py_merge_side_tests =
    "child_index >= len(parent.children) ; len(parent.keys) != len(parent.children) - 1 ; child_index > 0" := rfl
theorem py_redistribute_from_left_sep_eq : py_redistribute_from_left_sep =
    "parent.keys[child_index - 1] = child.keys[0] ; parent.keys[child_index - 1] = new_separator" := rfl
theorem py_redistribute_from_right_sep_eq : py_redistribute_from_right_sep =
    "parent.keys[child_index] = right_sibling.keys[0] ; parent.keys[child_index] = new_separator" := rfl
theorem py_leafnode_borrow_from_left_eq : py_leafnode_borrow_from_left =
    "key = left_sibling.keys.pop() ; value = left_sibling.values.pop() ; self.keys.insert(0, key) ; self.values.insert(0, value)" := rfl
theorem py_leafnode_borrow_from_right_eq : py_leafnode_borrow_from_right =
    "key = right_sibling.keys.pop(0) ; value = right_sibling.values.pop(0) ; self.keys.append(key) ; self.values.append(value)" := rfl
theorem py_leafnode_merge_with_right_eq : py_leafnode_merge_with_right =
    "self.keys.extend(right_sibling.keys) ; self.values.extend(right_sibling.values) ; self.next = right_sibling.next" := rfl
theorem py_branchnode_borrow_from_left_eq : py_branchnode_borrow_from_left =
    "self.keys.insert(0, separator_key) ; child = left_sibling.children.pop() ; self.children.insert(0, child) ; return left_sibling.keys.pop()" := rfl
theorem py_branchnode_borrow_from_right_eq : py_branchnode_borrow_from_right =
    "self.keys.append(separator_key) ; child = right_sibling.children.pop(0) ; self.children.append(child) ; return right_sibling.keys.pop(0)" := rfl
theorem py_branchnode_merge_with_right_eq : py_branchnode_merge_with_right =
    "self.keys.append(separator_key) ; self.keys.extend(right_sibling.keys) ; self.children.extend(right_sibling.children)" := rfl
theorem py_get_return_eq : py_get_return =
    "node.values[pos] if exists else default" := rfl
theorem py_items_tests_eq : py_items_tests =
    "start_key is None ; current is not None ; current is None ; end_key is not None and key >= end_key" := rfl
theorem py_items_for_eq : py_items_for =
    "range(start_index, len(current.keys))" := rfl
theorem py_find_position_in_leaf_tests_eq : py_find_position_in_leaf_tests =
    "left < right ; key <= leaf.keys[mid]" := rfl
theorem py_sorted_fast_test_eq : py_sorted_fast_test =
    "self._rightmost_leaf_cache and self._rightmost_leaf_cache.keys and (key > self._rightmost_leaf_cache.keys[-1]) and (not self._rightmost_leaf_cache.is_full())" := rfl
theorem py_sorted_fast_body_eq : py_sorted_fast_body =
    "self._rightmost_leaf_cache.keys.append(key) ; self._rightmost_leaf_cache.values.append(value) ; return" := rfl
theorem py_setitem_shape_eq : py_setitem_shape =
    "result = self._insert_recursive(self.root, key, value) ; new_node, separator_key = result ; new_root = BranchNode(self.capacity) ; new_root.keys.append(separator_key) ; new_root.children.append(self.root) ; new_root.children.append(new_node) ; self.root = new_root" := rfl
theorem py_api_pop_eq : py_api_pop =
    "if len(args) > 1: raise TypeError(f'pop expected at most 2 arguments, got {len(args) + 1}') ; try: value = self[key] del self[key] return value except KeyError: if args: return args[0] raise" := rfl
theorem py_api_popitem_eq : py_api_popitem =
    "if len(self) == 0: raise KeyError('popitem(): tree is empty') ; first_leaf = self.leaves ; if len(first_leaf.keys) == 0: raise KeyError('popitem(): tree is empty') ; key = first_leaf.keys[0] ; value = first_leaf.values[0] ; del self[key] ; return (key, value)" := rfl
theorem py_api_setdefault_eq : py_api_setdefault =
    "try: return self[key] except KeyError: self[key] = default return default" := rfl
theorem py_api_copy_eq : py_api_copy =
    "new_tree = BPlusTreeMap(capacity=self.capacity) ; for key, value in self.items(): new_tree[key] = value ; return new_tree" := rfl
theorem py_api_clear_eq : py_api_clear =
    "original = LeafNode(self.capacity) ; self.leaves = original ; self.root = original ; self._rightmost_leaf_cache = None" := rfl
theorem py_api_getitem_eq : py_api_getitem =
    "value = self.get(key) ; if value is None: if key in self: return None raise KeyError(key) ; return value" := rfl
theorem py_api_contains_eq : py_api_contains =
    "node = self.root ; while not node.is_leaf(): node = node.get_child(key) ; pos, exists = node.find_position(key) ; return exists" := rfl
theorem py_api_delitem_eq : py_api_delitem =
    "deleted = self._delete_recursive(self.root, key) ; if not deleted: raise KeyError(key)" := rfl
theorem py_api_bool_eq : py_api_bool =
    "return len(self) > 0" := rfl

end BPT.TiePy
