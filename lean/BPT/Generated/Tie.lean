import BPT.Generated.Source
import BPT.Arena.Model
import BPT.Rust.Policy
import BPT.Rust.Raw
/-
  Tie lemmas: what tools/extract.py regenerated from /repo's sources equals what
  the hand-written models use.  If a threshold, constant or guard changes in the
  code, `Source.lean` changes and one of these stops checking.
-/
namespace BPT.Tie
open BPT BPT.Generated

/-! ### constants -/
theorem rust_null_node : rust_NULL_NODE = nullId := rfl
theorem rust_null_node_arena : rust_NULL_NODE_arena = nullId := rfl
theorem rust_nodeid_bits : rust_NodeId_bits = 32 ∧ nullId = 2 ^ 32 - 1 := by decide
theorem rust_min_capacity : rust_MIN_CAPACITY = Rust.minCapacity := rfl
theorem rust_default_capacity : rust_DEFAULT_CAPACITY = Rust.defaultCapacity := rfl

/-! ### CompactArena::allocate refuses to issue the null handle (C16, D5) -/
theorem rust_arena_alloc_limit_eq : rust_arena_alloc_limit = nullId := rfl

/-! ### constructors (C10) -/
theorem rust_new_rejects_iff (c : Nat) : rust_new_rejects c = decide (c < Rust.minCapacity) := rfl
theorem rust_empty_rejects_iff (c : Nat) : rust_empty_rejects c = decide (c < Rust.minCapacity) := rfl

/-! ### occupancy policy (C01, C04) -/
theorem rust_leaf_min_keys_eq (cap : Nat) : rust_leaf_min_keys cap = Rust.minKeys cap := rfl
theorem rust_branch_min_keys_eq (cap : Nat) : rust_branch_min_keys cap = Rust.minKeys cap := rfl
theorem rust_leaf_is_full_eq (cap n : Nat) : rust_leaf_is_full cap n = Rust.isFull cap n := rfl
theorem rust_branch_is_full_eq (cap n : Nat) : rust_branch_is_full cap n = Rust.isFull cap n := rfl
theorem rust_leaf_is_underfull_eq (cap n : Nat) : rust_leaf_is_underfull cap n = Rust.isUnderfull cap n := rfl
theorem rust_branch_is_underfull_eq (cap n : Nat) : rust_branch_is_underfull cap n = Rust.isUnderfull cap n := rfl
theorem rust_leaf_can_donate_eq (cap n : Nat) : rust_leaf_can_donate cap n = Rust.canDonate cap n := rfl
theorem rust_branch_can_donate_eq (cap n : Nat) : rust_branch_can_donate cap n = Rust.canDonate cap n := rfl
theorem rust_leaf_split_mid_node_eq (cap n : Nat) : rust_leaf_split_mid_node cap n = Rust.leafSplitMid cap n := by
  simp [rust_leaf_split_mid_node, Rust.leafSplitMid, rust_leaf_min_keys, Rust.minKeys]
theorem rust_leaf_split_mid_insert_eq (cap n : Nat) : rust_leaf_split_mid_insert cap n = Rust.leafSplitMid cap n := by
  simp [rust_leaf_split_mid_insert, Rust.leafSplitMid, Rust.minKeys]
theorem rust_leaf_insert_goes_left_eq (i mid : Nat) : rust_leaf_insert_goes_left i mid = Rust.goesLeft i mid := rfl
theorem rust_branch_split_mid_eq (cap : Nat) : rust_branch_split_mid cap = Rust.branchSplitMid cap := rfl
/-- the four inlined sibling tests of `rebalance_child` are `len > min_keys` -/
theorem rust_rebalance_tests :
    rust_rebalance_can_donate_tests =
      ["(n > (rust_leaf_min_keys cap))", "(n > (rust_branch_min_keys cap))",
       "(n > (rust_leaf_min_keys cap))", "(n > (rust_branch_min_keys cap))"] := by decide


/-! ### the checked / bulk wrappers (C10, C14): the source text `BPT/Rust/Checked.lean` transcribes -/
/-- model: `Rust.tryInsert` -/
theorem rust_src_try_insert_eq : rust_src_try_insert =
    "if let Err(e) = self.check_invariants_detailed() { return Err(BPlusTreeError::DataIntegrityError(e)); } let old_value = self.insert(key, value); if let Err(e) = self.check_invariants_detailed() { return Err(BPlusTreeError::DataIntegrityError(e)); } Ok(old_value)" := rfl
/-- model: `Rust.tryRemove` -/
theorem rust_src_try_remove_eq : rust_src_try_remove =
    "if let Err(e) = self.check_invariants_detailed() { return Err(BPlusTreeError::DataIntegrityError(e)); } let value = self.remove(key).ok_or(BPlusTreeError::KeyNotFound)?; if let Err(e) = self.check_invariants_detailed() { return Err(BPlusTreeError::DataIntegrityError(e)); } Ok(value)" := rfl
/-- model: `Rust.batchInsert / batchInsertLoop / rollback` -/
theorem rust_src_batch_insert_eq : rust_src_batch_insert =
    "let mut results = Vec::new(); let mut inserted_keys = Vec::new(); for (key, value) in items { match self.try_insert(key.clone(), value) { Ok(old_value) => { results.push(old_value); inserted_keys.push(key); } Err(e) => { for rollback_key in inserted_keys { self.remove(&rollback_key); } return Err(e); } } } Ok(results)" := rfl
/-- model: `Rust.tryGet` -/
theorem rust_src_get_item_eq : rust_src_get_item =
    "self.get(key).ok_or(BPlusTreeError::KeyNotFound)" := rfl
/-- model: `Rust.tryGet` -/
theorem rust_src_try_get_eq : rust_src_try_get =
    "self.get(key).ok_or(BPlusTreeError::KeyNotFound)" := rfl
/-- model: `Rust.getManyE` -/
theorem rust_src_get_many_eq : rust_src_get_many =
    "let mut values = Vec::new(); for key in keys.iter() { match self.get(key) { Some(value) => values.push(value), None => { return Err(BPlusTreeError::KeyNotFound); } } } Ok(values)" := rfl
/-- model: `(get s k).isSome` -/
theorem rust_src_contains_key_eq : rust_src_contains_key =
    "self.get(key).is_some()" := rfl
/-- model: `((get s k).map (·.2)).getD default` -/
theorem rust_src_get_or_default_eq : rust_src_get_or_default =
    "self.get(key).unwrap_or(default)" := rfl
/-- model: `Rust.removeItem` -/
theorem rust_src_remove_item_eq : rust_src_remove_item =
    "self.remove(key).ok_or(BPlusTreeError::KeyNotFound)" := rfl
/-- model: `Rust.validateForOperation` -/
theorem rust_src_validate_eq : rust_src_validate =
    "self.check_invariants_detailed()" := rfl
/-- model: `Rust.validateForOperation` -/
theorem rust_src_validate_for_operation_eq : rust_src_validate_for_operation =
    "self.check_invariants_detailed().map_err(|e| { BPlusTreeError::data_integrity( operation, &format!('Validation for {}: {}', operation, e), ) })" := rfl

/-! ### the repaired-defect switches of the reader model (`Cfg.repaired`) are what the code does now -/
theorem rust_range_skip_only_matched : rust_range_skip_only_matched = Rust.Cfg.repaired.skipOnlyMatched := rfl
theorem rust_end_key_honours_inclusive : rust_end_key_honours_inclusive = Rust.Cfg.repaired.honourEndIncl := rfl
theorem rust_iter_guard_both : rust_iter_guard_both = Rust.Cfg.repaired.guardBoth := rfl
theorem rust_validator_checks_empty : rust_validator_checks_empty = Rust.Cfg.repaired.validatorChecksEmpty := rfl
/-- FastItemIterator follows leaf ids through the checked lookup: no `get_leaf_unchecked` call site is left -/
theorem rust_fast_checked : rust_leaf_unchecked_followers = [] ∧ Rust.Cfg.repaired.fastChecked = true := ⟨rfl, rfl⟩

/-! ### inventories (C02, C05, C11, C15) -/
theorem no_interior_mutability : rust_interior_mutability = [] := rfl
theorem no_manual_ownership : rust_manual_ownership = [] := rfl

/-- Every `unsafe` token of the crate: the accessor definitions themselves and one
    use site — `ItemIterator::try_get_next_item`, behind a guard on both vectors. -/
theorem unsafe_sites_catalogue :
    rust_unsafe_sites =
      ["compact_arena.rs: unsafe fn get_unchecked",
       "compact_arena.rs: unsafe fn get_unchecked_mut",
       "compact_arena.rs: unsafe fn get_leaf_unchecked",
       "compact_arena.rs: unsafe fn get_branch_unchecked",
       "iteration.rs: try_get_next_item: unsafe block",
       "node.rs: unsafe fn get_key_unchecked",
       "node.rs: unsafe fn get_value_unchecked",
       "node.rs: unsafe fn get_key_value_unchecked"] := by decide

/-- Every *call* of an unchecked accessor: the wrappers' own bodies and the one
    modelled site P1 (`get_key_value_unchecked` in `try_get_next_item`). -/
theorem unchecked_calls_catalogue :
    rust_unchecked_calls =
      ["compact_arena.rs: get_unchecked: get_unchecked",
       "compact_arena.rs: get_unchecked_mut: get_unchecked_mut",
       "compact_arena.rs: get_leaf_unchecked: get_unchecked",
       "compact_arena.rs: get_branch_unchecked: get_unchecked",
       "iteration.rs: try_get_next_item: get_key_value_unchecked",
       "node.rs: get_key_unchecked: get_unchecked",
       "node.rs: get_value_unchecked: get_unchecked",
       "node.rs: get_key_value_unchecked: get_unchecked",
       "node.rs: get_key_value_unchecked: get_unchecked"] := by decide

end BPT.Tie
