import BPT.Generated.Source
import BPT.C.Model
/-
  Tie lemmas for the C extension model: what tools/extract_c.py regenerated from
  python/bplustree_c_src equals what BPT/C/Model.lean assumes.  An added or removed
  Py_INCREF / Py_DECREF, a changed split point, capacity guard or stamp increment,
  or a different first test in the iterator breaks an obligation here.
-/
namespace BPT.TieC
open BPT BPT.Generated

theorem c_min_capacity : c_MIN_CAPACITY = C.minCapacity := rfl
theorem c_default_capacity : c_DEFAULT_CAPACITY = C.defaultCapacity := rfl
theorem c_header_bits : c_capacity_bits = C.capacityBits ∧ c_num_keys_bits = C.capacityBits := ⟨rfl, rfl⟩
/-- the constructor rejects exactly what the (repaired) model rejects: `c < 4` or `c ≥ 2^16` -/
theorem c_ctor_rejects_eq (c : Nat) :
    c_ctor_rejects c = decide (c < C.minCapacity ∨ c ≥ 2 ^ C.capacityBits) := by
  unfold c_ctor_rejects c_MIN_CAPACITY C.minCapacity C.capacityBits
  by_cases h1 : c < 4 <;> by_cases h2 : c > 65535 <;> simp [h1, h2] <;> omega
theorem c_leaf_split_mid_eq (cap : Nat) : c_leaf_split_mid cap = cap / 2 := rfl
theorem c_branch_split_mid_eq (cap : Nat) : c_branch_split_mid cap = cap / 2 := rfl
theorem c_leaf_is_full_eq (cap n : Nat) : c_leaf_is_full cap n = decide (n ≥ cap) := rfl
theorem c_branch_is_full_eq (cap n : Nat) : c_branch_is_full cap n = decide (n ≥ cap) := rfl
theorem c_leaf_split_counts_eq : c_leaf_split_counts = "total_items - mid ; node->capacity + 1" := rfl
theorem c_branch_split_counts_eq : c_branch_split_counts = "node->capacity - mid" := rfl

/-- the reference-count operations of the repaired code are exactly the events the model emits:
    update: +value −old; split: +key +value +separator copy; plain insert: +key +value;
    branch insert: none (ownership moves); delete: −key −value; get: +value; contains: +value −value;
    iterator: +key (+value); destroy / GC clear: − every slot -/
theorem c_refcount_sites_eq :
    c_refcount_sites =
      ["node_insert_leaf: Py_INCREF(value), Py_DECREF(old_value), Py_INCREF(key), Py_INCREF(value), Py_INCREF(*split_key), Py_INCREF(key), Py_INCREF(value)",
       "node_insert_branch: -",
       "node_delete: -",
       "node_clear_slot: Py_XDECREF(node_get_key(node,i)), Py_XDECREF(node_get_value(node,i)), Py_XDECREF(node_get_key(node,i))",
       "node_get: Py_INCREF(value)",
       "node_destroy: Py_XDECREF(node_get_key(node,i)), Py_XDECREF(node_get_value(node,i))",
       "tree_insert: Py_XDECREF(split_key)",
       "tree_insert_recursive: -",
       "BPlusTree_contains: Py_DECREF(value)",
       "BPlusTreeIterator_next: Py_INCREF(key), Py_INCREF(value), Py_INCREF(key)",
       "node_gc_op: Py_CLEAR(node->data[i]), Py_CLEAR(node->data[node->capacity+i])",
       "BPlusTree_dealloc: -"] := rfl

/-- every successful insert bumps the stamp once, every successful delete twice (model: `modc + 1`, `modc + 2`) -/
theorem c_stamp_increments_eq :
    c_stamp_increments = ["tree_insert: 2", "tree_delete: 1", "BPlusTree_delitem: 1", "BPlusTree_setitem: 0"] := rfl

/-- the iterator compares the stamps before it touches any node, and raises RuntimeError -/
theorem c_iter_fail_fast_eq :
    c_iter_first_test = "self->modification_count != self->tree->modification_count" ∧ c_iter_first_raises = "PyExc_RuntimeError" := ⟨rfl, rfl⟩

theorem c_routing_eq : c_route_steps_right_on_equal = true ∧ c_insert_route_steps_right_on_equal = true := ⟨rfl, rfl⟩

/-- D10 (not expressible in the model: CPython's allocator protocol): the subclassable type allocates and
    frees through the type's slots -/
theorem c_alloc_via_type_slots_eq : c_type_is_basetype = true → c_alloc_via_type_slots = true := fun _ => rfl


/-! ### iterator functions: the source text the model transcribes (C12, C13) -/
/-- model: `C.iterNext` (+ `C.iterEvs` for the two Py_INCREF sites) -/
theorem c_iter_next_src_eq : c_iter_next_src =
    "if (self->modification_count != self->tree->modification_count) { PyErr_SetString(PyExc_RuntimeError, 'tree changed size during iteration'); return NULL; } if (!self->current_node) { PyErr_SetNone(PyExc_StopIteration); return NULL; } while (self->current_node && self->current_node->num_keys == 0) { self->current_node = self->current_node->next; } if (!self->current_node) { PyErr_SetNone(PyExc_StopIteration); return NULL; } if (self->current_index >= self->current_node->num_keys) { self->current_node = self->current_node->next; while (self->current_node && self->current_node->num_keys == 0) { self->current_node = self->current_node->next; } if (!self->current_node) { PyErr_SetNone(PyExc_StopIteration); return NULL; } self->current_index = 0; } PyObject *key = node_get_key(self->current_node, self->current_index); if (self->include_values) { PyObject *value = node_get_value(self->current_node, self->current_index); PyObject *tuple = PyTuple_New(2); if (!tuple) return NULL; Py_INCREF(key); Py_INCREF(value); PyTuple_SET_ITEM(tuple, 0, key); PyTuple_SET_ITEM(tuple, 1, value); self->current_index++; return tuple; } else { self->current_index++; Py_INCREF(key); return key; }" := rfl
/-- model: `C.iterNew s false` (takes one reference on the tree object, none on keys or values) -/
theorem c_src_BPlusTree_iter_eq : c_src_BPlusTree_iter =
    "BPlusTreeIterator *iter = PyObject_New(BPlusTreeIterator, &BPlusTreeIteratorType); if (!iter) return NULL; Py_INCREF(self); iter->tree = self; BPlusNode *first_leaf = self->root; if (first_leaf) { while (first_leaf->type == NODE_BRANCH) { first_leaf = node_get_child(first_leaf, 0); if (!first_leaf) break; } } iter->current_node = first_leaf; iter->current_index = 0; iter->include_values = 0; iter->modification_count = self->modification_count; return (PyObject *)iter;" := rfl
/-- model: `C.iterNew s false` -/
theorem c_src_BPlusTree_keys_eq : c_src_BPlusTree_keys =
    "return BPlusTree_iter(self);" := rfl
/-- model: `C.iterNew s true` -/
theorem c_src_BPlusTree_items_eq : c_src_BPlusTree_items =
    "BPlusTreeIterator *iter = PyObject_New(BPlusTreeIterator, &BPlusTreeIteratorType); if (!iter) return NULL; Py_INCREF(self); iter->tree = self; BPlusNode *first_leaf = self->root; if (first_leaf) { while (first_leaf->type == NODE_BRANCH) { first_leaf = node_get_child(first_leaf, 0); if (!first_leaf) break; } } iter->current_node = first_leaf; iter->current_index = 0; iter->include_values = 1; iter->modification_count = self->modification_count; return (PyObject *)iter;" := rfl
/-- releases the iterator's reference on the tree object only -/
theorem c_src_BPlusTreeIterator_dealloc_eq : c_src_BPlusTreeIterator_dealloc =
    "Py_XDECREF(self->tree); Py_TYPE(self)->tp_free((PyObject *)self);" := rfl


/-! ### search and comparison glue: the source text `BPT/C/Search.lean` transcribes (C12) -/
/-- model: `C.nodeFindPosition` (= `lowerBound` on sorted keys, `C.nodeFindPosition_eq`) -/
theorem c_src_node_find_position_eq : c_src_node_find_position =
    "int left = 0; int right = node->num_keys; while (left < right) { int mid = (left + right) / 2; PyObject *mid_key = node_get_key(node, mid); int result = fast_compare_lt(mid_key, key); if (result < 0) { return -1; } if (result) { left = mid + 1; } else { right = mid; } } return left;" := rfl
/-- model: `C.fastLtInt` for exact ints (`C.fastLtInt_eq`); exact str and the rich-compare fallback are the key type's own order -/
theorem c_src_fast_compare_lt_eq : c_src_fast_compare_lt =
    "if (PyLong_CheckExact(a) && PyLong_CheckExact(b)) { long val_a = PyLong_AsLong(a); long val_b = PyLong_AsLong(b); if (!PyErr_Occurred()) { return val_a < val_b ? 1 : 0; } PyErr_Clear(); } if (PyUnicode_CheckExact(a) && PyUnicode_CheckExact(b)) { int result = PyUnicode_Compare(a, b); if (result != -1 || !PyErr_Occurred()) { return result < 0 ? 1 : 0; } PyErr_Clear(); } return PyObject_RichCompareBool(a, b, Py_LT);" := rfl
/-- model: `C.fastEqInt` for exact ints (`C.fastEqInt_eq`) -/
theorem c_src_fast_compare_eq_eq : c_src_fast_compare_eq =
    "if (PyLong_CheckExact(a) && PyLong_CheckExact(b)) { long val_a = PyLong_AsLong(a); long val_b = PyLong_AsLong(b); if (!PyErr_Occurred()) { return val_a == val_b ? 1 : 0; } PyErr_Clear(); } if (PyUnicode_CheckExact(a) && PyUnicode_CheckExact(b)) { int result = PyUnicode_Compare(a, b); if (result != -1 || !PyErr_Occurred()) { return result == 0 ? 1 : 0; } PyErr_Clear(); } return PyObject_RichCompareBool(a, b, Py_EQ);" := rfl

end BPT.TieC
