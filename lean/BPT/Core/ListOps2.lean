import BPT.Core.ListOps
namespace BPT
variable {α : Type}

theorem take_insertAt_le (l : List α) (i m : Nat) (x : α) (h : i ≤ m) (hm : m ≤ l.length) :
    (insertAt l i x).take (m+1) = insertAt (l.take m) i x := by
  apply List.ext_getElem?
  intro j
  have h1 : i ≤ l.length := by omega
  have h2 : i ≤ (l.take m).length := by simp; omega
  rw [List.getElem?_take, getElem?_insertAt _ _ _ _ h1, getElem?_insertAt _ _ _ _ h2]
  simp only [List.getElem?_take]
  grind

theorem drop_insertAt_le (l : List α) (i m : Nat) (x : α) (h : i ≤ m) (hm : m ≤ l.length) :
    (insertAt l i x).drop (m+1) = l.drop m := by
  apply List.ext_getElem?
  intro j
  have h1 : i ≤ l.length := by omega
  rw [List.getElem?_drop, getElem?_insertAt _ _ _ _ h1, List.getElem?_drop]
  grind

theorem take_insertAt_gt (l : List α) (i m : Nat) (x : α) (h : m < i) (hi : i ≤ l.length) :
    (insertAt l i x).take m = l.take m := by
  apply List.ext_getElem?
  intro j
  rw [List.getElem?_take, getElem?_insertAt _ _ _ _ hi, List.getElem?_take]
  grind

theorem drop_insertAt_gt (l : List α) (i m : Nat) (x : α) (h : m < i) (hi : i ≤ l.length) :
    (insertAt l i x).drop m = insertAt (l.drop m) (i - m) x := by
  apply List.ext_getElem?
  intro j
  have h2 : i - m ≤ (l.drop m).length := by simp; omega
  rw [List.getElem?_drop, getElem?_insertAt _ _ _ _ hi, getElem?_insertAt _ _ _ _ h2]
  simp only [List.getElem?_drop]
  grind

theorem zip_insertAt {β : Type} (l : List α) (r : List β) (i : Nat) (x : α) (y : β) (h : l.length = r.length) :
    (insertAt l i x).zip (insertAt r i y) = insertAt (l.zip r) i (x, y) := by
  unfold insertAt
  rw [List.zip_append (by simp [h]), List.zip_cons_cons]
  simp only [List.zip, List.take_zipWith, List.drop_zipWith]

end BPT

namespace BPT
variable {α : Type}
theorem insertAt_setAt_eq (l : List α) (i : Nat) (a b : α) (h : i < l.length) :
    insertAt (setAt l i a) (i+1) b = l.take i ++ a :: b :: l.drop (i+1) := by
  apply List.ext_getElem?
  intro j
  rw [getElem?_insertAt _ _ _ _ (by rw [length_setAt _ _ _ h]; omega)]
  simp only [getElem?_setAt _ _ _ _ h]
  rw [List.getElem?_append]
  simp only [List.length_take, Nat.min_eq_left (Nat.le_of_lt h), List.getElem?_take]
  by_cases h1 : j < i
  · have : j < i + 1 := by omega
    have : j ≠ i := by omega
    simp [*]
  · by_cases h2 : j = i
    · subst h2; simp
    · by_cases h3 : j = i + 1
      · subst h3
        have e0 : i + 1 - i = 0 + 1 := by omega
        simp only [h1, h2, if_false, e0, List.getElem?_cons_succ, List.getElem?_cons_zero]
        simp
      · have e1 : ¬ j < i + 1 := by omega
        have e2 : j - i = (j - i - 2) + 1 + 1 := by omega
        have e3 : ¬ (j - 1 = i) := by omega
        simp only [h1, h2, h3, e1, e3, if_false]
        rw [e2, List.getElem?_cons_succ, List.getElem?_cons_succ, List.getElem?_drop]
        congr 1; omega
end BPT
