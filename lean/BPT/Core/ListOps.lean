/-
  Vec / list operations as take/drop forms, with index characterisations.
  Import-free (usable from the driver executable).
-/
namespace BPT

variable {α : Type}

def insertAt (l : List α) (i : Nat) (x : α) : List α := l.take i ++ x :: l.drop i
def setAt (l : List α) (i : Nat) (x : α) : List α := l.take i ++ x :: l.drop (i+1)
def removeAt (l : List α) (i : Nat) : List α := l.take i ++ l.drop (i+1)

theorem lt_of_getElem?_eq_some {l : List α} {i : Nat} {x : α} (h : l[i]? = some x) : i < l.length := by
  rcases Nat.lt_or_ge i l.length with h' | h'
  · exact h'
  · simp [List.getElem?_eq_none h'] at h

theorem length_insertAt (l : List α) (i : Nat) (x : α) (h : i ≤ l.length) :
    (insertAt l i x).length = l.length + 1 := by
  simp [insertAt]; omega

theorem length_setAt (l : List α) (i : Nat) (x : α) (h : i < l.length) :
    (setAt l i x).length = l.length := by
  simp [setAt]; omega

theorem length_removeAt (l : List α) (i : Nat) (h : i < l.length) :
    (removeAt l i).length = l.length - 1 := by
  simp [removeAt]; omega

theorem getElem?_insertAt (l : List α) (i j : Nat) (x : α) (h : i ≤ l.length) :
    (insertAt l i x)[j]? = if j < i then l[j]? else if j = i then some x else l[j-1]? := by
  unfold insertAt
  rw [List.getElem?_append]
  simp only [List.length_take, Nat.min_eq_left h]
  split
  · simp [List.getElem?_take, *]
  · split
    · subst_vars; simp
    · have : j - i = (j - i - 1) + 1 := by omega
      rw [this, List.getElem?_cons_succ, List.getElem?_drop]
      congr 1; omega

theorem getElem?_setAt (l : List α) (i j : Nat) (x : α) (h : i < l.length) :
    (setAt l i x)[j]? = if j = i then some x else l[j]? := by
  unfold setAt
  rw [List.getElem?_append]
  simp only [List.length_take, Nat.min_eq_left (Nat.le_of_lt h)]
  split
  · rename_i hji
    have : j ≠ i := by omega
    simp [List.getElem?_take, *]
  · split
    · subst_vars; simp
    · have : j - i = (j - i - 1) + 1 := by omega
      rw [this, List.getElem?_cons_succ, List.getElem?_drop]
      congr 1; omega

theorem getElem?_removeAt (l : List α) (i j : Nat) (h : i < l.length) :
    (removeAt l i)[j]? = if j < i then l[j]? else l[j+1]? := by
  unfold removeAt
  rw [List.getElem?_append]
  simp only [List.length_take, Nat.min_eq_left (Nat.le_of_lt h)]
  split
  · simp [List.getElem?_take, *]
  · rw [List.getElem?_drop]; congr 1; omega

theorem mem_insertAt (l : List α) (i : Nat) (x y : α) : y ∈ insertAt l i x ↔ y = x ∨ y ∈ l := by
  unfold insertAt
  constructor
  · intro h
    rcases List.mem_append.1 h with h | h
    · exact Or.inr (List.mem_of_mem_take h)
    · rcases List.mem_cons.1 h with h | h
      · exact Or.inl h
      · exact Or.inr (List.mem_of_mem_drop h)
  · intro h
    rcases h with rfl | h
    · simp
    · have : y ∈ l.take i ++ l.drop i := by simpa using h
      rcases List.mem_append.1 this with h | h <;> simp [h]

theorem mem_of_mem_removeAt (l : List α) (i : Nat) (y : α) (h : y ∈ removeAt l i) : y ∈ l := by
  unfold removeAt at h
  rcases List.mem_append.1 h with h | h
  · exact List.mem_of_mem_take h
  · exact List.mem_of_mem_drop h

/-- split a list around index `i` -/
theorem eq_take_cons_drop (l : List α) (i : Nat) (x : α) (h : l[i]? = some x) :
    l = l.take i ++ x :: l.drop (i+1) := by
  have hi : i < l.length := by
    rcases Nat.lt_or_ge i l.length with h' | h'
    · exact h'
    · simp [List.getElem?_eq_none h'] at h
  have hx : l[i] = x := by simpa [List.getElem?_eq_getElem hi] using h
  subst hx
  simp

theorem setAt_eq_self (l : List α) (i : Nat) (x : α) (h : l[i]? = some x) : setAt l i x = l := by
  unfold setAt; exact (eq_take_cons_drop l i x h).symm

theorem flatMap_setAt {β : Type} (f : α → List β) (l : List α) (i : Nat) (x : α) :
    (setAt l i x).flatMap f = (l.take i).flatMap f ++ f x ++ (l.drop (i+1)).flatMap f := by
  simp [setAt, List.flatMap_append]

theorem flatMap_split {β : Type} (f : α → List β) (l : List α) (i : Nat) (x : α) (h : l[i]? = some x) :
    l.flatMap f = (l.take i).flatMap f ++ f x ++ (l.drop (i+1)).flatMap f := by
  conv => lhs; rw [eq_take_cons_drop l i x h]
  simp [List.flatMap_append]

end BPT
