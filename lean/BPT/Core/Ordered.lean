import BPT.Core.Spec
/- The ordering invariant, stated index-wise like the Rust validator computes child_min/child_max. -/
namespace BPT
variable {K V : Type} [Keyed K]

def InB (lo hi : Option Int) (x : Int) : Prop :=
  (∀ l, lo = some l → l ≤ x) ∧ (∀ u, hi = some u → x < u)

def loAt (ks : List K) (lo : Option Int) (i : Nat) : Option Int := if i = 0 then lo else (ks[i-1]?).map ord
def hiAt (ks : List K) (hi : Option Int) (i : Nat) : Option Int := if i = ks.length then hi else (ks[i]?).map ord

namespace Tree

def Ordered : (h : Nat) → Tree K V h → Option Int → Option Int → Prop
  | 0, (l : Leaf K V), lo, hi =>
      KSorted l.keys ∧ l.keys.length = l.vals.length ∧ ∀ k ∈ l.keys, InB lo hi (ord k)
  | h+1, (b : Branch K (Tree K V h)), lo, hi =>
      KSorted b.keys ∧ b.children.length = b.keys.length + 1 ∧ (∀ k ∈ b.keys, InB lo hi (ord k)) ∧
      ∀ i (c : Tree K V h), b.children[i]? = some c → Ordered h c (loAt b.keys lo i) (hiAt b.keys hi i)

end Tree

theorem loAt_insertAt (ks : List K) (lo : Option Int) (i j : Nat) (sep : K) (hi : i ≤ ks.length) :
    loAt (insertAt ks i sep) lo j =
      if j ≤ i then loAt ks lo j else if j = i + 1 then some (ord sep) else loAt ks lo (j - 1) := by
  unfold loAt
  rw [getElem?_insertAt _ _ _ _ hi]
  grind

theorem hiAt_insertAt (ks : List K) (hi' : Option Int) (i j : Nat) (sep : K) (hi : i ≤ ks.length) :
    hiAt (insertAt ks i sep) hi' j =
      if j < i then hiAt ks hi' j else if j = i then some (ord sep) else hiAt ks hi' (j - 1) := by
  unfold hiAt
  rw [getElem?_insertAt _ _ _ _ hi, length_insertAt _ _ _ hi]
  grind

theorem loAt_removeAt (ks : List K) (lo : Option Int) (i j : Nat) (hi : i < ks.length) :
    loAt (removeAt ks i) lo j = if j ≤ i then loAt ks lo j else loAt ks lo (j + 1) := by
  unfold loAt
  rw [getElem?_removeAt _ _ _ hi]
  grind

theorem hiAt_removeAt (ks : List K) (hi' : Option Int) (i j : Nat) (hi : i < ks.length) :
    hiAt (removeAt ks i) hi' j = if j < i then hiAt ks hi' j else hiAt ks hi' (j + 1) := by
  unfold hiAt
  rw [getElem?_removeAt _ _ _ hi, length_removeAt _ _ hi]
  grind

theorem loAt_setAt (ks : List K) (lo : Option Int) (i j : Nat) (k : K) (hi : i < ks.length) :
    loAt (setAt ks i k) lo j = if j = i + 1 then some (ord k) else loAt ks lo j := by
  unfold loAt
  rw [getElem?_setAt _ _ _ _ hi]
  grind

theorem hiAt_setAt (ks : List K) (hi' : Option Int) (i j : Nat) (k : K) (hi : i < ks.length) :
    hiAt (setAt ks i k) hi' j = if j = i then some (ord k) else hiAt ks hi' j := by
  unfold hiAt
  rw [getElem?_setAt _ _ _ _ hi, length_setAt _ _ _ hi]
  grind

theorem ksorted_insertAt (ks : List K) (i : Nat) (sep : K) (hs : KSorted ks)
    (h1 : ∀ x ∈ ks.take i, ord x < ord sep) (h2 : ∀ x ∈ ks.drop i, ord sep < ord x) :
    KSorted (insertAt ks i sep) := by
  unfold insertAt KSorted
  rw [List.pairwise_append]
  refine ⟨hs.sublist (List.take_sublist _ _), ?_, ?_⟩
  · rw [List.pairwise_cons]; exact ⟨h2, hs.sublist (List.drop_sublist _ _)⟩
  · intro a ha b hb
    rcases List.mem_cons.1 hb with rfl | hb
    · exact h1 a ha
    · have := h1 a ha; have := h2 b hb; omega

theorem ksorted_removeAt (ks : List K) (i : Nat) (hs : KSorted ks) : KSorted (removeAt ks i) := by
  unfold removeAt KSorted
  have : (ks.take i ++ ks.drop (i+1)).Sublist ks := by
    conv => rhs; rw [← List.take_append_drop i ks]
    exact List.Sublist.append (List.Sublist.refl _) (List.drop_sublist_drop_left _ (Nat.le_succ i))
  exact hs.sublist this

end BPT
