import BPT.Core.Surgery
namespace BPT
variable {K V : Type} [Keyed K]
open Tree

theorem ksorted_setAt (ks : List K) (i : Nat) (sep : K) (hs : KSorted ks)
    (h1 : ∀ x ∈ ks.take i, ord x < ord sep) (h2 : ∀ x ∈ ks.drop (i+1), ord sep < ord x) :
    KSorted (setAt ks i sep) := by
  unfold setAt KSorted
  rw [List.pairwise_append]
  refine ⟨hs.sublist (List.take_sublist _ _), ?_, ?_⟩
  · rw [List.pairwise_cons]; exact ⟨h2, hs.sublist (List.drop_sublist _ _)⟩
  · intro a ha b hb
    rcases List.mem_cons.1 hb with rfl | hb
    · exact h1 a ha
    · have := h1 a ha; have := h2 b hb; omega

theorem mem_setAt (l : List α) (i : Nat) (x y : α) (h : y ∈ setAt l i x) : y = x ∨ y ∈ l := by
  unfold setAt at h
  rcases List.mem_append.1 h with h | h
  · exact Or.inr (List.mem_of_mem_take h)
  · rcases List.mem_cons.1 h with h | h
    · exact Or.inl h
    · exact Or.inr (List.mem_of_mem_drop h)

theorem ordered_replace2 (h : Nat) (b : Branch K (Tree K V h)) (lo hi : Option Int) (i : Nat) (l r : Tree K V h) (sep : K)
    (hb : Ordered (h+1) b lo hi) (hi' : i + 1 < b.children.length)
    (hl : Ordered h l (loAt b.keys lo i) (some (ord sep)))
    (hr : Ordered h r (some (ord sep)) (hiAt b.keys hi (i+1)))
    (h1 : ∀ x ∈ b.keys.take i, ord x < ord sep) (h2 : ∀ x ∈ b.keys.drop (i+1), ord sep < ord x)
    (hsepB : InB lo hi (ord sep)) :
    Ordered (h+1) (b.replace2 i l r sep) lo hi := by
  obtain ⟨hs, hlen, hkb, hc⟩ := hb
  have hik : i < b.keys.length := by omega
  have hic : i < b.children.length := by omega
  have hic1 : i + 1 < (setAt b.children i l).length := by rw [length_setAt _ _ _ hic]; exact hi'
  refine ⟨ksorted_setAt _ _ _ hs h1 h2, ?_, ?_, ?_⟩
  · show (setAt (setAt b.children i l) (i+1) r).length = (setAt b.keys i sep).length + 1
    rw [length_setAt _ _ _ hic1, length_setAt _ _ _ hic, length_setAt _ _ _ hik]; exact hlen
  · intro k hk
    rcases mem_setAt _ _ _ _ hk with rfl | hk
    · exact hsepB
    · exact hkb k hk
  · intro j c hj
    show Ordered h c (loAt (setAt b.keys i sep) lo j) (hiAt (setAt b.keys i sep) hi j)
    rw [loAt_setAt _ _ _ _ _ hik, hiAt_setAt _ _ _ _ _ hik]
    have hj' : (setAt (setAt b.children i l) (i+1) r)[j]? = some c := hj
    rw [getElem?_setAt _ _ _ _ hic1, getElem?_setAt _ _ _ _ hic] at hj'
    by_cases hje : j = i
    · subst hje
      simp at hj' ⊢; subst hj'; exact hl
    · by_cases hje1 : j = i + 1
      · subst hje1
        simp at hj' ⊢; subst hj'; exact hr
      · simp only [hje, hje1, if_false] at hj' ⊢
        exact hc j c hj'
end BPT
