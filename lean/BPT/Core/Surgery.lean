import BPT.Core.Ordered
/- Implementation-independent surgery on (keys, children) and its effect on `Ordered`. -/
namespace BPT
variable {K V : Type} [Keyed K]
open Tree

/-- replace child `i` -/
def Branch.replace1 (b : Branch K α) (i : Nat) (c : α) : Branch K α :=
  { b with children := setAt b.children i c }
/-- replace child `i` by `(l, r)` separated by `sep` -/
def Branch.split1 (b : Branch K α) (i : Nat) (l r : α) (sep : K) : Branch K α :=
  { b with keys := insertAt b.keys i sep, children := insertAt (setAt b.children i l) (i+1) r }
/-- replace children `i, i+1` and the separator between them (borrow / rotate) -/
def Branch.replace2 (b : Branch K α) (i : Nat) (l r : α) (sep : K) : Branch K α :=
  { b with keys := setAt b.keys i sep, children := setAt (setAt b.children i l) (i+1) r }
/-- merge children `i, i+1` into `m`, dropping the separator between them -/
def Branch.merge2 (b : Branch K α) (i : Nat) (m : α) : Branch K α :=
  { b with keys := removeAt b.keys i, children := removeAt (setAt b.children i m) (i+1) }

theorem ordered_replace1 (h : Nat) (b : Branch K (Tree K V h)) (lo hi : Option Int) (i : Nat) (c : Tree K V h)
    (hb : Ordered (h+1) b lo hi) (hi' : i < b.children.length)
    (hc' : Ordered h c (loAt b.keys lo i) (hiAt b.keys hi i)) :
    Ordered (h+1) (b.replace1 i c) lo hi := by
  obtain ⟨hs, hlen, hkb, hc⟩ := hb
  refine ⟨hs, ?_, hkb, ?_⟩
  · show (setAt b.children i c).length = b.keys.length + 1
    rw [length_setAt _ _ _ hi']; exact hlen
  · intro j d hj
    have hj' : (setAt b.children i c)[j]? = some d := hj
    rw [getElem?_setAt _ _ _ _ hi'] at hj'
    show Ordered h d (loAt b.keys lo j) (hiAt b.keys hi j)
    by_cases hji : j = i
    · subst hji; simp at hj'; subst hj'; exact hc'
    · simp only [hji, if_false] at hj'; exact hc j d hj'

theorem ordered_split1 (h : Nat) (b : Branch K (Tree K V h)) (lo hi : Option Int) (i : Nat) (l r : Tree K V h) (sep : K)
    (hb : Ordered (h+1) b lo hi) (hi' : i < b.children.length)
    (hl : Ordered h l (loAt b.keys lo i) (some (ord sep)))
    (hr : Ordered h r (some (ord sep)) (hiAt b.keys hi i))
    (h1 : ∀ x ∈ b.keys.take i, ord x < ord sep) (h2 : ∀ x ∈ b.keys.drop i, ord sep < ord x)
    (hsepB : InB lo hi (ord sep)) :
    Ordered (h+1) (b.split1 i l r sep) lo hi := by
  obtain ⟨hs, hlen, hkb, hc⟩ := hb
  have hik : i ≤ b.keys.length := by omega
  refine ⟨ksorted_insertAt _ _ _ hs h1 h2, ?_, ?_, ?_⟩
  · show (insertAt (setAt b.children i l) (i+1) r).length = (insertAt b.keys i sep).length + 1
    rw [length_insertAt _ _ _ (by rw [length_setAt _ _ _ hi']; omega), length_setAt _ _ _ hi', length_insertAt _ _ _ hik]
    omega
  · intro k hk
    rcases (mem_insertAt _ _ _ _).1 hk with rfl | hk
    · exact hsepB
    · exact hkb k hk
  · intro j c hj
    show Ordered h c (loAt (insertAt b.keys i sep) lo j) (hiAt (insertAt b.keys i sep) hi j)
    rw [loAt_insertAt _ _ _ _ _ hik, hiAt_insertAt _ _ _ _ _ hik]
    have hj' : (insertAt (setAt b.children i l) (i+1) r)[j]? = some c := hj
    rw [getElem?_insertAt _ _ _ _ (by rw [length_setAt _ _ _ hi']; omega)] at hj'
    simp only [getElem?_setAt _ _ _ _ hi'] at hj'
    by_cases hji : j < i
    · have e1 : j < i + 1 := by omega
      have e2 : j ≠ i := by omega
      have e3 : j ≤ i := by omega
      simp only [e1, e2, e3, hji, if_true, if_false] at hj' ⊢
      exact hc j c hj'
    · by_cases hje : j = i
      · subst hje; simp at hj' ⊢; subst hj'; exact hl
      · by_cases hje1 : j = i + 1
        · subst hje1
          simp at hj' ⊢
          subst hj'
          simp only [show ¬ (i + 1 ≤ i) by omega, show ¬ (i + 1 < i) by omega, if_false]
          exact hr
        · have e1 : ¬ j < i + 1 := by omega
          have e2 : ¬ j ≤ i := by omega
          have e4 : ¬ (j - 1 = i) := by omega
          simp only [e1, e2, hji, hje, hje1, e4, if_false] at hj' ⊢
          exact hc (j-1) c hj'

theorem ordered_merge2 (h : Nat) (b : Branch K (Tree K V h)) (lo hi : Option Int) (i : Nat) (m : Tree K V h)
    (hb : Ordered (h+1) b lo hi) (hi' : i + 1 < b.children.length)
    (hm : Ordered h m (loAt b.keys lo i) (hiAt b.keys hi (i+1))) :
    Ordered (h+1) (b.merge2 i m) lo hi := by
  obtain ⟨hs, hlen, hkb, hc⟩ := hb
  have hik : i < b.keys.length := by omega
  have hic : i < b.children.length := by omega
  refine ⟨ksorted_removeAt _ _ hs, ?_, ?_, ?_⟩
  · show (removeAt (setAt b.children i m) (i+1)).length = (removeAt b.keys i).length + 1
    rw [length_removeAt _ _ (by rw [length_setAt _ _ _ hic]; omega), length_setAt _ _ _ hic, length_removeAt _ _ hik]
    omega
  · intro k hk; exact hkb k (mem_of_mem_removeAt _ _ _ hk)
  · intro j c hj
    show Ordered h c (loAt (removeAt b.keys i) lo j) (hiAt (removeAt b.keys i) hi j)
    rw [loAt_removeAt _ _ _ _ hik, hiAt_removeAt _ _ _ _ hik]
    have hj' : (removeAt (setAt b.children i m) (i+1))[j]? = some c := hj
    rw [getElem?_removeAt _ _ _ (by rw [length_setAt _ _ _ hic]; omega)] at hj'
    simp only [getElem?_setAt _ _ _ _ hic] at hj'
    by_cases hji : j < i
    · have e1 : j < i + 1 := by omega
      have e2 : j ≠ i := by omega
      have e3 : j ≤ i := by omega
      simp only [e1, e2, e3, hji, if_true, if_false] at hj' ⊢
      exact hc j c hj'
    · by_cases hje : j = i
      · subst hje; simp at hj' ⊢; subst hj'; exact hm
      · have e1 : ¬ j < i + 1 := by omega
        have e2 : ¬ j ≤ i := by omega
        have e4 : ¬ (j + 1 = i) := by omega
        simp only [e1, e2, hji, e4, if_false] at hj' ⊢
        exact hc (j+1) c hj'
end BPT
