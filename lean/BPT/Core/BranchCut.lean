import BPT.Core.SpecAppend
namespace BPT
variable {K V : Type} [Keyed K]
open Tree

theorem loAt_take (ks : List K) (lo : Option Int) (m j : Nat) (hj : j ≤ m) (hm : m ≤ ks.length) :
    loAt (ks.take m) lo j = loAt ks lo j := by
  unfold loAt
  rw [List.getElem?_take]
  grind

theorem hiAt_take (ks : List K) (hi : Option Int) (m j : Nat) (pk : K) (hj : j ≤ m) (hm : ks[m]? = some pk) :
    hiAt (ks.take m) (some (ord pk)) j = hiAt ks hi j := by
  have hml : m < ks.length := by
    rcases Nat.lt_or_ge m ks.length with h | h
    · exact h
    · simp [List.getElem?_eq_none h] at hm
  unfold hiAt
  rw [List.getElem?_take, List.length_take, Nat.min_eq_left (Nat.le_of_lt hml)]
  by_cases hjm : j = m
  · subst hjm; simp [hm]; omega
  · have : j < m := by omega
    have : j ≠ ks.length := by omega
    simp [*]

theorem loAt_drop (ks : List K) (lo : Option Int) (m j : Nat) (pk : K) (hm : ks[m]? = some pk) :
    loAt (ks.drop (m+1)) (some (ord pk)) j = loAt ks lo (j + m + 1) := by
  unfold loAt
  rw [List.getElem?_drop]
  by_cases hj : j = 0
  · subst hj; simp [hm]
  · have : m + 1 + (j - 1) = j + m + 1 - 1 := by omega
    simp [hj, this]

theorem hiAt_drop (ks : List K) (hi : Option Int) (m j : Nat) (hm : m < ks.length) :
    hiAt (ks.drop (m+1)) hi j = hiAt ks hi (j + m + 1) := by
  unfold hiAt
  rw [List.getElem?_drop, List.length_drop]
  have : m + 1 + j = j + m + 1 := by omega
  rw [this]
  by_cases h : j = ks.length - (m+1)
  · have h2 : j + m + 1 = ks.length := by omega
    rw [if_pos h, if_pos h2]
  · have h2 : j + m + 1 ≠ ks.length := by omega
    rw [if_neg h, if_neg h2]

/-- the shape every branch split has: cut an (over-full) ordered branch around key `m` -/
theorem branch_cut_spec (h : Nat) (b : Branch K (Tree K V h)) (lo hi : Option Int) (m : Nat) (pk : K) (id₁ id₂ : Nat)
    (hb : Ordered (h+1) b lo hi) (hm : b.keys[m]? = some pk) :
    Ordered (h+1) ({ id := id₁, keys := b.keys.take m, children := b.children.take (m+1) } : Branch K (Tree K V h)) lo (some (ord pk)) ∧
    Ordered (h+1) ({ id := id₂, keys := b.keys.drop (m+1), children := b.children.drop (m+1) } : Branch K (Tree K V h)) (some (ord pk)) hi ∧
    InB lo hi (ord pk) := by
  obtain ⟨hs, hlen, hkb, hc⟩ := hb
  have hml : m < b.keys.length := by
    rcases Nat.lt_or_ge m b.keys.length with h | h
    · exact h
    · simp [List.getElem?_eq_none h] at hm
  have hpk : b.keys[m] = pk := by simpa [List.getElem?_eq_getElem hml] using hm
  have hpkmem : pk ∈ b.keys := hpk ▸ List.getElem_mem hml
  -- keys = take m ++ pk :: drop (m+1)
  have hdecomp := eq_take_cons_drop b.keys m pk hm
  have hs' : KSorted (b.keys.take m ++ pk :: b.keys.drop (m+1)) := by rw [← hdecomp]; exact hs
  unfold KSorted at hs'
  rw [List.pairwise_append, List.pairwise_cons] at hs'
  obtain ⟨hsl, ⟨hpr, hsr⟩, hlr⟩ := hs'
  refine ⟨⟨hsl, ?_, ?_, ?_⟩, ⟨hsr, ?_, ?_, ?_⟩, hkb pk hpkmem⟩
  · show (b.children.take (m+1)).length = (b.keys.take m).length + 1
    simp; omega
  · intro x hx
    refine ⟨(hkb x (List.mem_of_mem_take hx)).1, ?_⟩
    intro u hu; cases hu; exact hlr x hx pk (List.mem_cons_self)
  · intro j c hj
    have hj' : (b.children.take (m+1))[j]? = some c := hj
    rw [List.getElem?_take] at hj'
    split at hj'
    · rename_i hjm
      show Ordered h c (loAt (b.keys.take m) lo j) (hiAt (b.keys.take m) (some (ord pk)) j)
      rw [loAt_take _ _ _ _ (by omega) (by omega), hiAt_take _ hi _ _ _ (by omega) hm]
      exact hc j c hj'
    · cases hj'
  · show (b.children.drop (m+1)).length = (b.keys.drop (m+1)).length + 1
    simp; omega
  · intro x hx
    refine ⟨?_, (hkb x (List.mem_of_mem_drop hx)).2⟩
    intro u hu; cases hu; exact Int.le_of_lt (hpr x hx)
  · intro j c hj
    have hj' : (b.children.drop (m+1))[j]? = some c := hj
    rw [List.getElem?_drop] at hj'
    show Ordered h c (loAt (b.keys.drop (m+1)) (some (ord pk)) j) (hiAt (b.keys.drop (m+1)) hi j)
    rw [loAt_drop _ lo _ _ _ hm, hiAt_drop _ _ _ _ hml]
    have : m + 1 + j = j + m + 1 := by omega
    rw [this] at hj'
    exact hc _ c hj'
end BPT
