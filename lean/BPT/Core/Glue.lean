import BPT.Core.BranchCut
import BPT.Core.SpecAppend
import BPT.Rust.InsertLeaf2
/-
  Glue / cut in append form: two adjacent ordered nodes and the separator
  between them form one ordered node, and an ordered node cut around a key
  gives two.  Every borrow and merge of the three implementations is
  "glue, then cut somewhere else" (merge: glue only).
-/
namespace BPT
variable {K V : Type} [Keyed K]
open Tree

/-- number of keys in the root node of a subtree -/
def nkeys : (h : Nat) → Tree K V h → Nat
  | 0, (l : Leaf K V) => l.keys.length
  | _+1, (b : Branch K (Tree K V _)) => b.keys.length

/-- an ordered subtree whose root node holds a key has `lo < hi` (strictly) -/
theorem bounds_strict (h : Nat) (t : Tree K V h) (a b : Int) (ho : Ordered h t (some a) (some b)) (hn : 1 ≤ nkeys h t) :
    a < b := by
  cases h with
  | zero =>
    obtain ⟨_, _, hb⟩ := ho
    cases hk : (t : Leaf K V).keys with
    | nil => simp [nkeys, hk] at hn
    | cons x xs =>
      have := hb x (by rw [hk]; exact List.mem_cons_self)
      have h1 := this.1 a rfl; have h2 := this.2 b rfl; omega
  | succ h =>
    obtain ⟨_, _, hb, _⟩ := ho
    cases hk : (Branch.keys t) with
    | nil => simp [nkeys, hk] at hn
    | cons x xs =>
      have := hb x (by rw [hk]; exact List.mem_cons_self)
      have h1 := this.1 a rfl; have h2 := this.2 b rfl; omega

/-- `InB` is monotone in its bounds -/
theorem InB.widen {lo hi lo' hi' : Option Int} {x : Int} (h : InB lo hi x)
    (hl : ∀ l, lo' = some l → ∃ l0, lo = some l0 ∧ l ≤ l0) (hh : ∀ u, hi' = some u → ∃ u0, hi = some u0 ∧ u0 ≤ u) :
    InB lo' hi' x := by
  constructor
  · intro l hl'; obtain ⟨l0, h1, h2⟩ := hl l hl'; have := h.1 l0 h1; omega
  · intro u hu'; obtain ⟨u0, h1, h2⟩ := hh u hu'; have := h.2 u0 h1; omega

/-! ### leaves -/

theorem leaf_glue (K1 K2 : List K) (V1 V2 : List V) (lo hi : Option Int) (s : Int) (id₁ id₂ id n₁ n₂ n : Nat)
    (h1 : Ordered 0 ({ id := id₁, keys := K1, vals := V1, next := n₁ } : Leaf K V) lo (some s))
    (h2 : Ordered 0 ({ id := id₂, keys := K2, vals := V2, next := n₂ } : Leaf K V) (some s) hi)
    (hlo : ∀ l, lo = some l → l ≤ s) (hhi : ∀ u, hi = some u → s ≤ u) :
    Ordered 0 ({ id := id, keys := K1 ++ K2, vals := V1 ++ V2, next := n } : Leaf K V) lo hi := by
  obtain ⟨s1, l1, b1⟩ := h1
  obtain ⟨s2, l2, b2⟩ := h2
  refine ⟨?_, ?_, ?_⟩
  · show KSorted (K1 ++ K2)
    unfold KSorted
    rw [List.pairwise_append]
    refine ⟨s1, s2, ?_⟩
    intro x hx y hy
    have := (b1 x hx).2 s rfl
    have := (b2 y hy).1 s rfl
    omega
  · show (K1 ++ K2).length = (V1 ++ V2).length
    have e1 : K1.length = V1.length := l1
    have e2 : K2.length = V2.length := l2
    simp [e1, e2]
  · intro x hx
    have hx' : x ∈ K1 ++ K2 := hx
    rcases List.mem_append.1 hx' with hx | hx
    · refine ⟨(b1 x hx).1, ?_⟩
      intro u hu; have := (b1 x hx).2 s rfl; have := hhi u hu; omega
    · refine ⟨?_, (b2 x hx).2⟩
      intro l hl; have := (b2 x hx).1 s rfl; have := hlo l hl; omega

/-- cut an ordered leaf `K1 ++ sep :: K2'` in front of `sep` -/
theorem leaf_cut_append (K1 K2 : List K) (V1 V2 : List V) (lo hi : Option Int) (sep : K) (id id₁ id₂ n n₁ n₂ : Nat)
    (h : Ordered 0 ({ id := id, keys := K1 ++ K2, vals := V1 ++ V2, next := n } : Leaf K V) lo hi)
    (hl : K1.length = V1.length) (hsep : K2.head? = some sep) :
    Ordered 0 ({ id := id₁, keys := K1, vals := V1, next := n₁ } : Leaf K V) lo (some (ord sep)) ∧
    Ordered 0 ({ id := id₂, keys := K2, vals := V2, next := n₂ } : Leaf K V) (some (ord sep)) hi ∧
    InB lo hi (ord sep) := by
  obtain ⟨hs, hlen, hb⟩ := h
  have hs' : KSorted (K1 ++ K2) := hs
  have hlen' : (K1 ++ K2).length = (V1 ++ V2).length := hlen
  have hb' : ∀ x ∈ K1 ++ K2, InB lo hi (ord x) := hb
  have := Rust.leaf_cut_spec (K1 ++ K2) (V1 ++ V2) K1.length lo hi sep hs' hlen' hb' (by simp [hsep]) id₁ id₂ n₁ n₂
  simpa [hl] using this

/-! ### branches -/

theorem getElem?_append_cons_right {α : Type} (A B : List α) (x : α) (j : Nat) (hj : A.length < j) :
    (A ++ x :: B)[j]? = B[j - A.length - 1]? := by
  rw [List.getElem?_append_right (by omega)]
  obtain ⟨d, hd⟩ : ∃ d, j - A.length = d + 1 := ⟨j - A.length - 1, by omega⟩
  rw [hd, List.getElem?_cons_succ]; simp

/-- two adjacent ordered branches and the separator between them, glued -/
theorem branch_glue (h : Nat) (K1 K2 : List K) (C1 C2 : List (Tree K V h)) (lo hi : Option Int) (pk : K) (id₁ id₂ id : Nat)
    (h1 : Ordered (h+1) ({ id := id₁, keys := K1, children := C1 } : Branch K (Tree K V h)) lo (some (ord pk)))
    (h2 : Ordered (h+1) ({ id := id₂, keys := K2, children := C2 } : Branch K (Tree K V h)) (some (ord pk)) hi)
    (hpk : InB lo hi (ord pk)) (hstrict : ∀ x ∈ K2, ord pk < ord x) :
    Ordered (h+1) ({ id := id, keys := K1 ++ pk :: K2, children := C1 ++ C2 } : Branch K (Tree K V h)) lo hi := by
  obtain ⟨s1, l1, b1, c1⟩ := h1
  obtain ⟨s2, l2, b2, c2⟩ := h2
  have l1' : C1.length = K1.length + 1 := l1
  have l2' : C2.length = K2.length + 1 := l2
  refine ⟨?_, ?_, ?_, ?_⟩
  · show KSorted (K1 ++ pk :: K2)
    unfold KSorted
    rw [List.pairwise_append, List.pairwise_cons]
    refine ⟨s1, ⟨hstrict, s2⟩, ?_⟩
    intro x hx y hy
    have hxp := (b1 x hx).2 (ord pk) rfl
    rcases List.mem_cons.1 hy with rfl | hy
    · exact hxp
    · have := hstrict y hy; omega
  · show (C1 ++ C2).length = (K1 ++ pk :: K2).length + 1
    simp [l1', l2']; omega
  · intro x hx
    have hx' : x ∈ K1 ++ pk :: K2 := hx
    rcases List.mem_append.1 hx' with hx | hx
    · refine ⟨(b1 x hx).1, ?_⟩
      intro u hu; have := (b1 x hx).2 (ord pk) rfl; have := hpk.2 u hu; omega
    · rcases List.mem_cons.1 hx with rfl | hx
      · exact hpk
      · refine ⟨?_, (b2 x hx).2⟩
        intro l hl; have := (b2 x hx).1 (ord pk) rfl; have := hpk.1 l hl; omega
  · intro j c hj
    have hj' : (C1 ++ C2)[j]? = some c := hj
    show Ordered h c (loAt (K1 ++ pk :: K2) lo j) (hiAt (K1 ++ pk :: K2) hi j)
    by_cases hjl : j < C1.length
    · rw [List.getElem?_append_left hjl] at hj'
      have := c1 j c hj'
      have e1 : loAt (K1 ++ pk :: K2) lo j = loAt K1 lo j := by
        unfold loAt
        split
        · rfl
        · rw [List.getElem?_append_left (by omega)]
      have e2 : hiAt (K1 ++ pk :: K2) hi j = hiAt K1 (some (ord pk)) j := by
        unfold hiAt
        have : j ≠ (K1 ++ pk :: K2).length := by simp; omega
        rw [if_neg this]
        by_cases hje : j = K1.length
        · rw [if_pos hje, hje]; simp
        · rw [if_neg hje, List.getElem?_append_left (by omega)]
      rw [e1, e2]; exact this
    · rw [List.getElem?_append_right (by omega)] at hj'
      have := c2 (j - C1.length) c hj'
      have e1 : loAt (K1 ++ pk :: K2) lo j = loAt K2 (some (ord pk)) (j - C1.length) := by
        unfold loAt
        have : j ≠ 0 := by omega
        rw [if_neg this]
        by_cases hje : j - C1.length = 0
        · rw [if_pos hje]
          have : j - 1 = K1.length := by omega
          rw [this]; simp
        · rw [if_neg hje, getElem?_append_cons_right _ _ _ _ (by omega)]
          congr 2; omega
      have e2 : hiAt (K1 ++ pk :: K2) hi j = hiAt K2 hi (j - C1.length) := by
        unfold hiAt
        by_cases hje : j - C1.length = K2.length
        · have : j = (K1 ++ pk :: K2).length := by simp; omega
          rw [if_pos this, if_pos hje]
        · have : j ≠ (K1 ++ pk :: K2).length := by simp; omega
          rw [if_neg this, if_neg hje, getElem?_append_cons_right _ _ _ _ (by omega)]
          congr 2; omega
      rw [e1, e2]; exact this

/-- cut an ordered branch `K1 ++ pk :: K2` around `pk` -/
theorem branch_cut_append (h : Nat) (K1 K2 : List K) (C1 C2 : List (Tree K V h)) (lo hi : Option Int) (pk : K) (id id₁ id₂ : Nat)
    (hb : Ordered (h+1) ({ id := id, keys := K1 ++ pk :: K2, children := C1 ++ C2 } : Branch K (Tree K V h)) lo hi)
    (hl : C1.length = K1.length + 1) :
    Ordered (h+1) ({ id := id₁, keys := K1, children := C1 } : Branch K (Tree K V h)) lo (some (ord pk)) ∧
    Ordered (h+1) ({ id := id₂, keys := K2, children := C2 } : Branch K (Tree K V h)) (some (ord pk)) hi ∧
    InB lo hi (ord pk) := by
  have := branch_cut_spec h _ lo hi K1.length pk id₁ id₂ hb (by simp)
  simpa [hl] using this

end BPT
