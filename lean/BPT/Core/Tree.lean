import BPT.Core.ListOps
/-
  Shared tree datatype (Rust / Python / C models), in-order views, search.
  Import-free.
-/
namespace BPT

class Keyed (K : Type) where
  ord : K → Int
export Keyed (ord)

instance : Keyed Int := ⟨id⟩
/-- key object = (value, serial); compared by value only -/
instance : Keyed (Int × Nat) := ⟨fun p => p.1⟩

structure Leaf (K V : Type) where
  id : Nat
  keys : List K
  vals : List V
  next : Nat
deriving Repr

structure Branch (K α : Type) where
  id : Nat
  keys : List K
  children : List α
deriving Repr

@[reducible] def Tree (K V : Type) : Nat → Type
  | 0 => Leaf K V
  | h+1 => Branch K (Tree K V h)

variable {K V : Type} [Keyed K]

/-- `binary_search` / `bisect_left`: number of keys strictly below `k` -/
def lowerBound (ks : List K) (k : K) : Nat := (ks.takeWhile (fun x => ord x < ord k)).length
/-- `find_child_index` / `bisect_right`: number of keys `≤ k` -/
def upperBound (ks : List K) (k : K) : Nat := (ks.takeWhile (fun x => ord x ≤ ord k)).length

def Leaf.entries (l : Leaf K V) : List (K × V) := l.keys.zip l.vals

namespace Tree
def leaves : (h : Nat) → Tree K V h → List (Leaf K V)
  | 0, (l : Leaf K V) => [l]
  | h+1, (b : Branch K (Tree K V h)) => b.children.flatMap (leaves h)

def toList (h : Nat) (t : Tree K V h) : List (K × V) := (leaves h t).flatMap Leaf.entries
end Tree

-- the specification: association list strictly sorted by `ord`
namespace SMap
def lookup (m : List (K × V)) (k : K) : Option (K × V) := m.find? (fun p => ord p.1 == ord k)
def insert : List (K × V) → K → V → List (K × V)
  | [], k, v => [(k, v)]
  | (k', v') :: m, k, v =>
      if ord k < ord k' then (k, v) :: (k', v') :: m
      else if ord k = ord k' then (k', v) :: m          -- keeps the key object stored first
      else (k', v') :: insert m k v
def erase : List (K × V) → K → List (K × V)
  | [], _ => []
  | (k', v') :: m, k => if ord k' = ord k then m else (k', v') :: erase m k
def Sorted (m : List (K × V)) : Prop := m.Pairwise (fun a b => ord a.1 < ord b.1)
end SMap

end BPT
