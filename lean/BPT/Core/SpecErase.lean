import BPT.Core.SpecAppend
/- `SMap.lookup` / `SMap.erase` against leaf contents and under `A ++ M ++ B` decompositions. -/
namespace BPT
variable {K V : Type} [Keyed K]

namespace SMap

theorem lookup_append_left (A R : List (K × V)) (k : K) (h : ∀ p ∈ A, ord p.1 < ord k) :
    lookup (A ++ R) k = lookup R k := by
  induction A with
  | nil => rfl
  | cons a A ih =>
    have ha := h a List.mem_cons_self
    have ih := ih (fun p hp => h p (List.mem_cons_of_mem _ hp))
    unfold lookup at ih ⊢
    have : (ord a.1 == ord k) = false := by simp; omega
    simp [List.find?_cons, this, ih]

theorem lookup_none_of_gt (B : List (K × V)) (k : K) (h : ∀ p ∈ B, ord k < ord p.1) : lookup B k = none := by
  unfold lookup
  rw [List.find?_eq_none]
  intro p hp
  have := h p hp
  simp; omega

theorem lookup_append_right (M B : List (K × V)) (k : K) (h : ∀ p ∈ B, ord k < ord p.1) :
    lookup (M ++ B) k = lookup M k := by
  unfold lookup
  rw [List.find?_append]
  have := lookup_none_of_gt B k h
  unfold lookup at this
  rw [this]; simp

theorem erase_of_ne (B : List (K × V)) (k : K) (h : ∀ p ∈ B, ord p.1 ≠ ord k) : erase B k = B := by
  induction B with
  | nil => rfl
  | cons b B ih =>
    obtain ⟨bk, bv⟩ := b
    have hb := h (bk, bv) List.mem_cons_self
    simp only [erase]
    rw [if_neg hb, ih (fun p hp => h p (List.mem_cons_of_mem _ hp))]

theorem erase_append_left (A R : List (K × V)) (k : K) (h : ∀ p ∈ A, ord p.1 < ord k) :
    erase (A ++ R) k = A ++ erase R k := by
  induction A with
  | nil => rfl
  | cons a A ih =>
    obtain ⟨ak, av⟩ := a
    have ha := h (ak, av) List.mem_cons_self
    have ih := ih (fun p hp => h p (List.mem_cons_of_mem _ hp))
    simp only [List.cons_append, erase]
    have : ¬ ord ak = ord k := by simp at ha; omega
    rw [if_neg this, ih]

theorem erase_append_right (M B : List (K × V)) (k : K) (h : ∀ p ∈ B, ord k < ord p.1) :
    erase (M ++ B) k = erase M k ++ B := by
  induction M with
  | nil =>
    simp only [List.nil_append, erase]
    exact erase_of_ne B k (fun p hp => by have := h p hp; omega)
  | cons m M ih =>
    obtain ⟨mk, mv⟩ := m
    simp only [List.cons_append, erase]
    split
    · rfl
    · simp [ih]

/-- `lookup` in a leaf: the entry at the lower bound, if its key matches -/
theorem lookup_zip (ks : List K) (vs : List V) (k : K) (hs : KSorted ks) (hl : ks.length = vs.length) :
    lookup (ks.zip vs) k =
      match ks[lowerBound ks k]?, vs[lowerBound ks k]? with
      | some k', some v => if ord k' = ord k then some (k', v) else none
      | _, _ => none := by
  induction ks generalizing vs with
  | nil => cases vs <;> simp [lookup, lowerBound_nil]
  | cons a as ih =>
    cases vs with
    | nil => simp at hl
    | cons b bs =>
      have hs' := List.pairwise_cons.1 hs
      have hl' : as.length = bs.length := by simpa using hl
      rw [lowerBound_cons]
      by_cases h1 : ord a < ord k
      · have hne : (ord a == ord k) = false := by simp; omega
        have ih := ih bs hs'.2 hl'
        unfold lookup at ih ⊢
        simp only [List.zip_cons_cons, List.find?_cons, hne, h1, if_true, List.getElem?_cons_succ]
        exact ih
      · simp only [h1, if_false, List.getElem?_cons_zero]
        unfold lookup
        simp only [List.zip_cons_cons, List.find?_cons]
        by_cases h2 : ord a = ord k
        · simp [h2]
        · have hne : (ord a == ord k) = false := by simp [h2]
          simp only [hne, h2, if_false]
          -- every later key is above `a > k`
          rw [List.find?_eq_none]
          intro p hp
          have := hs'.1 p.1 (List.of_mem_zip hp).1
          simp; omega

/-- `erase` in a leaf -/
theorem erase_zip (ks : List K) (vs : List V) (k : K) (hs : KSorted ks) (hl : ks.length = vs.length) :
    erase (ks.zip vs) k =
      if (ks[lowerBound ks k]?).map ord = some (ord k)
      then (removeAt ks (lowerBound ks k)).zip (removeAt vs (lowerBound ks k))
      else ks.zip vs := by
  induction ks generalizing vs with
  | nil => cases vs <;> simp [erase, lowerBound_nil]
  | cons a as ih =>
    cases vs with
    | nil => simp at hl
    | cons b bs =>
      have hs' := List.pairwise_cons.1 hs
      have hl' : as.length = bs.length := by simpa using hl
      rw [lowerBound_cons]
      simp only [List.zip_cons_cons, erase]
      by_cases h1 : ord a < ord k
      · have hne : ¬ ord a = ord k := by omega
        simp only [hne, h1, if_true, if_false, List.getElem?_cons_succ]
        rw [ih bs hs'.2 hl']
        split <;> simp [removeAt]
      · simp only [h1, if_false, List.getElem?_cons_zero, Option.map_some, Option.some.injEq]
        by_cases h2 : ord a = ord k
        · simp [h2, removeAt]
        · simp only [h2, if_false]
          congr 1
          exact erase_of_ne _ k (fun p hp => by
            have := hs'.1 p.1 (List.of_mem_zip hp).1; omega)
end SMap
end BPT
