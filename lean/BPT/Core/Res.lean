/-
  Outcome of a modelled call: a value, a Rust panic / Python exception that the
  real code would raise at this point, or non-termination (fuel exhausted on a
  walk that has provably revisited a slot).  Import-free.
-/
namespace BPT

inductive Res (α : Type) where
  | ok (a : α)
  | panic
  | diverge
  | ub          -- an unchecked access outside its documented precondition (undefined behaviour)
deriving Repr, DecidableEq

namespace Res
variable {α β : Type}

@[inline] def bind : Res α → (α → Res β) → Res β
  | ok a, f => f a
  | panic, _ => panic
  | diverge, _ => diverge
  | ub, _ => ub

@[inline] def map (f : α → β) : Res α → Res β
  | ok a => ok (f a)
  | panic => panic
  | diverge => diverge
  | ub => ub

def isOk : Res α → Bool
  | ok _ => true
  | _ => false

def ofOption : Option α → Res α
  | some a => ok a
  | none => panic

@[simp] theorem bind_ok (a : α) (f : α → Res β) : (ok a).bind f = f a := rfl
@[simp] theorem bind_panic (f : α → Res β) : (panic : Res α).bind f = panic := rfl
@[simp] theorem bind_diverge (f : α → Res β) : (diverge : Res α).bind f = diverge := rfl
@[simp] theorem bind_ub (f : α → Res β) : (ub : Res α).bind f = ub := rfl
@[simp] theorem map_ok (f : α → β) (a : α) : (ok a).map f = ok (f a) := rfl

end Res
end BPT
