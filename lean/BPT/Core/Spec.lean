import BPT.Core.Tree
/- Lemmas about the specification `SMap` and the search functions. -/
namespace BPT
variable {K V : Type} [Keyed K]

def KSorted (ks : List K) : Prop := ks.Pairwise (fun a b => ord a < ord b)

theorem lowerBound_nil (k : K) : lowerBound ([] : List K) k = 0 := rfl
theorem lowerBound_cons (a : K) (ks : List K) (k : K) :
    lowerBound (a :: ks) k = if ord a < ord k then lowerBound ks k + 1 else 0 := by
  unfold lowerBound
  by_cases h : ord a < ord k <;> simp [List.takeWhile_cons, h]

theorem lowerBound_le (ks : List K) (k : K) : lowerBound ks k ≤ ks.length := by
  induction ks with
  | nil => simp [lowerBound_nil]
  | cons a as ih => rw [lowerBound_cons]; split <;> simp <;> omega

/-- keys before the lower bound are `< k`, keys from it on are `≥ k` -/
theorem lowerBound_spec (ks : List K) (k : K) (hs : KSorted ks) :
    (∀ x ∈ ks.take (lowerBound ks k), ord x < ord k) ∧ (∀ x ∈ ks.drop (lowerBound ks k), ord k ≤ ord x) := by
  induction ks with
  | nil => simp [lowerBound_nil]
  | cons a as ih =>
    have hs' := List.pairwise_cons.1 hs
    have ih := ih hs'.2
    rw [lowerBound_cons]
    by_cases h : ord a < ord k
    · simp only [h, if_true, List.take_succ_cons, List.drop_succ_cons, List.mem_cons]
      refine ⟨?_, ih.2⟩
      rintro x (rfl | hx)
      · exact h
      · exact ih.1 x hx
    · simp only [h, if_false, List.take_zero, List.drop_zero, List.mem_cons]
      refine ⟨by simp, ?_⟩
      rintro x (rfl | hx)
      · omega
      · have := hs'.1 x hx; omega

namespace SMap

theorem insert_zip (ks : List K) (vs : List V) (k : K) (v : V) (hs : KSorted ks) (hl : ks.length = vs.length) :
    insert (ks.zip vs) k v =
      if (ks[lowerBound ks k]?).map ord = some (ord k)
      then ks.zip (setAt vs (lowerBound ks k) v)
      else (insertAt ks (lowerBound ks k) k).zip (insertAt vs (lowerBound ks k) v) := by
  induction ks generalizing vs with
  | nil => cases vs <;> simp [insert, lowerBound_nil, insertAt]
  | cons a as ih =>
    cases vs with
    | nil => simp at hl
    | cons b bs =>
      have hs' := List.pairwise_cons.1 hs
      have hl' : as.length = bs.length := by simpa using hl
      rw [lowerBound_cons]
      simp only [List.zip_cons_cons, insert]
      by_cases h1 : ord k < ord a
      · have : ¬ ord a < ord k := by omega
        have hne : ¬ ord a = ord k := by omega
        simp [h1, this, insertAt, hne]
      · by_cases h2 : ord k = ord a
        · have : ¬ ord a < ord k := by omega
          simp [h1, h2, this, setAt]
        · have h3 : ord a < ord k := by omega
          simp only [h1, h2, h3, if_false, if_true, List.getElem?_cons_succ]
          rw [ih bs hs'.2 hl']
          split <;> simp [setAt, insertAt]
end SMap
end BPT
