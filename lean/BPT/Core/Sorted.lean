import BPT.Core.SpecAppend
/- The entry list of an ordered subtree is strictly ascending. -/
namespace BPT
variable {K V : Type} [Keyed K]
open Tree

theorem zip_sorted (ks : List K) (vs : List V) (hs : KSorted ks) : SMap.Sorted (ks.zip vs) := by
  induction ks generalizing vs with
  | nil => simp [SMap.Sorted]
  | cons a as ih =>
    cases vs with
    | nil => simp [SMap.Sorted]
    | cons b bs =>
      have hs' := List.pairwise_cons.1 hs
      unfold SMap.Sorted
      rw [List.zip_cons_cons, List.pairwise_cons]
      refine ⟨?_, ih bs hs'.2⟩
      intro p hp
      exact hs'.1 p.1 (List.of_mem_zip hp).1

theorem toList_sorted : ∀ (h : Nat) (t : Tree K V h) (lo hi : Option Int), Ordered h t lo hi → SMap.Sorted (toList h t) := by
  intro h
  induction h with
  | zero =>
    intro t lo hi ho
    rw [toList_zero]
    exact zip_sorted _ _ ho.1
  | succ h ih =>
    intro t lo hi ho
    obtain ⟨hs, hlen, hkb, hc⟩ := ho
    rw [toList_succ]
    unfold SMap.Sorted
    rw [List.pairwise_flatMap]
    constructor
    · intro c hcm
      obtain ⟨i, hi', hci⟩ := List.getElem_of_mem hcm
      have hci' : (Branch.children t)[i]? = some c := by rw [List.getElem?_eq_getElem hi', hci]
      exact ih c _ _ (hc i c hci')
    · rw [List.pairwise_iff_getElem]
      intro i j hi' hj hij x hx y hy
      have hoi := hc i _ (List.getElem?_eq_getElem hi')
      have hoj := hc j _ (List.getElem?_eq_getElem hj)
      have hik : i < (Branch.keys t).length := by omega
      have hjk : j - 1 < (Branch.keys t).length := by omega
      have h1 := (toList_inB h _ _ _ hoi x hx).2 (ord (Branch.keys t)[i]) (by
        unfold hiAt; rw [if_neg (by omega), List.getElem?_eq_getElem hik]; rfl)
      have h2 := (toList_inB h _ _ _ hoj y hy).1 (ord (Branch.keys t)[j-1]) (by
        unfold loAt; rw [if_neg (by omega), List.getElem?_eq_getElem hjk]; rfl)
      by_cases he : i = j - 1
      · subst he; omega
      · have := List.pairwise_iff_getElem.1 hs i (j-1) hik hjk (by omega)
        omega
end BPT
