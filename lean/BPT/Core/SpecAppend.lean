import BPT.Core.Surgery2
namespace BPT
variable {K V : Type} [Keyed K]
open Tree

namespace SMap
theorem insert_append_left (A R : List (K × V)) (k : K) (v : V) (h : ∀ p ∈ A, ord p.1 < ord k) :
    insert (A ++ R) k v = A ++ insert R k v := by
  induction A with
  | nil => rfl
  | cons a A ih =>
    have ha := h a (List.mem_cons_self)
    have ih := ih (fun p hp => h p (List.mem_cons_of_mem _ hp))
    obtain ⟨ak, av⟩ := a
    simp only [List.cons_append, insert]
    have h1 : ¬ ord k < ord ak := by simp at ha; omega
    have h2 : ¬ ord k = ord ak := by simp at ha; omega
    simp [h1, h2, ih]

theorem insert_append_right (M B : List (K × V)) (k : K) (v : V) (h : ∀ p ∈ B, ord k < ord p.1) :
    insert (M ++ B) k v = insert M k v ++ B := by
  induction M with
  | nil =>
    cases B with
    | nil => rfl
    | cons b B =>
      obtain ⟨bk, bv⟩ := b
      have := h (bk, bv) (List.mem_cons_self)
      simp only [List.nil_append, insert]
      simp at this
      simp [this]
  | cons m M ih =>
    obtain ⟨mk, mv⟩ := m
    simp only [List.cons_append, insert]
    split
    · rfl
    · split
      · rfl
      · simp [ih]
end SMap

namespace Tree
theorem toList_zero (t : Tree K V 0) : toList 0 t = Leaf.entries (t : Leaf K V) := by
  show List.flatMap Leaf.entries [(t : Leaf K V)] = _
  simp

theorem toList_succ (h : Nat) (t : Tree K V (h+1)) :
    toList (h+1) t = (Branch.children (t : Branch K (Tree K V h))).flatMap (toList h) := by
  simp only [toList, leaves, List.flatMap_assoc]
  rfl

/-- every entry of a subtree lies within the subtree's bounds -/
theorem toList_inB : ∀ (h : Nat) (t : Tree K V h) (lo hi : Option Int), Ordered h t lo hi →
    ∀ p ∈ toList h t, InB lo hi (ord p.1) := by
  intro h
  induction h with
  | zero =>
    intro t lo hi ho p hp
    obtain ⟨_, _, hb⟩ := ho
    rw [toList_zero] at hp
    exact hb _ (List.of_mem_zip hp).1
  | succ h ih =>
    intro t lo hi ho p hp
    obtain ⟨hs, hl, hkb, hc⟩ := ho
    rw [toList_succ, List.mem_flatMap] at hp
    obtain ⟨c, hcm, hpc⟩ := hp
    obtain ⟨i, hi', hci⟩ := List.getElem_of_mem hcm
    have hci' : (Branch.children t)[i]? = some c := by simp [List.getElem?_eq_getElem hi', hci]
    have := ih c _ _ (hc i c hci') p hpc
    refine ⟨?_, ?_⟩
    · intro l hlo
      unfold loAt at this
      split at this
      · exact this.1 l hlo
      · have hlt : i - 1 < (Branch.keys t).length := by omega
        have h1 := this.1 (ord (Branch.keys t)[i-1]) (by simp [List.getElem?_eq_getElem hlt])
        have h2 := (hkb _ (List.getElem_mem hlt)).1 l hlo
        omega
    · intro u hu
      unfold hiAt at this
      split at this
      · exact this.2 u hu
      · have hlt : i < (Branch.keys t).length := by omega
        have h1 := this.2 (ord (Branch.keys t)[i]) (by simp [List.getElem?_eq_getElem hlt])
        have h2 := (hkb _ (List.getElem_mem hlt)).2 u hu
        omega
end Tree
end BPT
