#!/usr/bin/env python3
"""Function-level source inventory of the Rust crate (rust/src/*.rs, non-test code).

For every `fn` item: its qualified name (`file::ImplType::name`, with `Trait for Type` impls
written `file::Type::Trait::name`), the normalised text of its signature + body (comments
stripped, whitespace collapsed) and the names it calls.  Per file also the *residue*: everything
that is not a function body (struct / enum / const / type items, impl headers, signatures,
attributes), so that a changed field type or derive is seen too.

Used by tools/extract.py (emits one `String` definition per function holding a digest of the
normalised text; BPT/Generated/TieRust.lean pins each digest to the text the Lean model was
written against) and by tools/gen_tierust.py (writes that tie file and the per-property
reachability sets, committed).  Name-based reachability over-approximates the call graph:
`x.insert(..)` counts as a call of every `insert` in the crate."""
import hashlib
import os
import re

FILES = ["lib.rs", "types.rs", "error.rs", "construction.rs", "get_operations.rs", "insert_operations.rs",
         "delete_operations.rs", "tree_structure.rs", "range_queries.rs", "iteration.rs", "validation.rs",
         "node.rs", "compact_arena.rs"]


def strip_comments(src):
    """comments -> spaces (length preserved); string and char literals are respected"""
    out = []
    i, n = 0, len(src)
    while i < n:
        c = src[i]
        if src.startswith("//", i):
            j = src.find("\n", i)
            j = n if j < 0 else j
            out.append(" " * (j - i))
            i = j
        elif src.startswith("/*", i):
            depth, j = 1, i + 2
            while j < n and depth:
                if src.startswith("/*", j):
                    depth += 1
                    j += 2
                elif src.startswith("*/", j):
                    depth -= 1
                    j += 2
                else:
                    j += 1
            out.append(re.sub(r"[^\n]", " ", src[i:j]))
            i = j
        elif c == '"':
            j = i + 1
            while j < n and src[j] != '"':
                j += 2 if src[j] == "\\" else 1
            out.append(src[i:j + 1])
            i = j + 1
        elif c == "'":
            m = re.match(r"'(\\.[^']*|[^'\\])'", src[i:])
            if m:
                out.append(m.group(0))
                i += len(m.group(0))
            else:
                out.append(c)
                i += 1
        else:
            out.append(c)
            i += 1
    return "".join(out)


def mask_literals(src):
    """string / char literal contents -> 'x' (length preserved), so that brace matching is exact"""
    out = []
    i, n = 0, len(src)
    while i < n:
        c = src[i]
        if c == '"':
            j = i + 1
            while j < n and src[j] != '"':
                j += 2 if src[j] == "\\" else 1
            out.append('"' + "x" * (j - i - 1) + '"')
            i = j + 1
        elif c == "'":
            m = re.match(r"'(\\.[^']*|[^'\\])'", src[i:])
            if m:
                out.append("'" + "x" * (len(m.group(0)) - 2) + "'")
                i += len(m.group(0))
            else:
                out.append(c)
                i += 1
        else:
            out.append(c)
            i += 1
    return "".join(out)


def match_brace(s, i):
    depth = 0
    for j in range(i, len(s)):
        if s[j] == "{":
            depth += 1
        elif s[j] == "}":
            depth -= 1
            if depth == 0:
                return j + 1
    raise ValueError("unbalanced braces")


def drop_generics(h):
    prev = None
    while prev != h:
        prev = h
        h = re.sub(r"<[^<>]*>", "", h)
    return h


def impl_name(header):
    h = drop_generics(header)
    h = re.sub(r"\bwhere\b.*", "", h, flags=re.S)
    toks = h.replace("impl", " ", 1).split()
    if "for" in toks:
        k = toks.index("for")
        return "%s::%s" % (toks[k + 1], toks[k - 1])
    return toks[0] if toks else "?"


def norm(text):
    return re.sub(r"\s+", " ", text).strip()


def parse_file(fname, raw):
    """-> (functions: list of dict(name, text, calls), residue text)"""
    src = strip_comments(raw)
    msk = mask_literals(src)
    # remove #[cfg(test)] mod ... { ... } blocks
    keep = [True] * len(src)
    for m in re.finditer(r"#\[cfg\(test\)\]\s*(?:pub\s+)?mod\s+\w+\s*\{", msk):
        b = msk.find("{", m.start())
        e = match_brace(msk, b)
        for i in range(m.start(), e):
            keep[i] = False
    fns = []
    body_spans = []

    def scan(lo, hi, ctx):
        i = lo
        pat = re.compile(r"\b(impl|fn|mod)\b")
        while i < hi:
            m = pat.search(msk, i, hi)
            if not m:
                return
            if not keep[m.start()]:
                i = m.end()
                continue
            kw = m.group(1)
            b = msk.find("{", m.end(), hi)
            semi = msk.find(";", m.end(), hi)
            if b < 0 or (0 <= semi < b and kw != "impl"):
                i = m.end()
                continue
            e = match_brace(msk, b)
            if kw == "impl":
                scan(b + 1, e - 1, ctx + [impl_name(msk[m.start():b])])
            elif kw == "mod":
                nm = re.match(r"\s*(\w+)", msk[m.end():b])
                scan(b + 1, e - 1, ctx + [nm.group(1) if nm else "?"])
            else:
                nm = re.match(r"\s*(\w+)", msk[m.end():b])
                name = nm.group(1) if nm else "?"
                # the signature starts after the previous `;`, `}` or `{` (attributes and `pub unsafe` included)
                s = m.start()
                while s > lo and msk[s - 1] not in ";}{":
                    s -= 1
                text = norm(src[s:e])
                body = msk[b:e]
                calls = sorted(set(re.findall(r"(?:\.|::|\b)([a-z_][a-z_0-9]*)\s*(?:::<[^>]*>)?\s*\(", body)))
                fns.append({"name": "::".join([fname[:-3]] + ctx + [name]), "short": name, "text": text, "calls": calls})
                body_spans.append((b + 1, e - 1))
            i = e

    scan(0, len(src), [])
    res = []
    last = 0
    for (b, e) in sorted(body_spans):
        res.append("".join(ch for k, ch in zip(range(last, b), src[last:b]) if keep[k]))
        last = e
    res.append("".join(ch for k, ch in zip(range(last, len(src)), src[last:]) if keep[k]))
    return fns, norm(" ".join(res))


def digest(text):
    return hashlib.sha256(text.encode("utf-8")).hexdigest()[:20]


def mangle(name):
    return re.sub(r"[^A-Za-z0-9]", "_", name)


def inventory(repo):
    """-> (functions by qualified name (duplicates get #2, #3), residues by file)"""
    fns, residues = {}, {}
    for f in FILES:
        p = os.path.join(repo, "rust", "src", f)
        if not os.path.exists(p):
            residues[f] = "<missing file>"
            continue
        with open(p, encoding="utf-8") as fh:
            raw = fh.read()
        try:
            fl, res = parse_file(f, raw)
        except ValueError as ex:
            residues[f] = "<unparsable: %s>" % ex
            continue
        residues[f] = res
        for d in fl:
            n, k = d["name"], 2
            while n in fns:
                n = "%s#%d" % (d["name"], k)
                k += 1
            d["name"] = n
            fns[n] = d
    return fns, residues


STD_RECEIVER = re.compile(r"(\.keys|\.values|\.children|storage|free_list|allocated_mask|_keys|_values|_children|^keys|^sizes|^ids|^results|inserted_keys)$")


def self_type(qname):
    """`file::Type::fn` or `file::Type::Trait::fn` -> Type"""
    parts = qname.split("::")
    return parts[1] if len(parts) >= 3 else None


def resolve_calls(fns):
    """heuristic call graph -> {qualified name: sorted list of qualified callee names}.
    Method calls are resolved by the receiver's spelling (`leaf…` -> LeafNode, `branch…`/`parent…` ->
    BranchNode, `…arena` -> CompactArena, `tree` -> BPlusTreeMap, `self` -> the enclosing type, a `Vec`
    field -> std); an unresolvable receiver falls back to every function of that name."""
    by_short, by_type = {}, {}
    for n, d in fns.items():
        by_short.setdefault(d["short"], []).append(n)
        by_type.setdefault((self_type(n), d["short"]), []).append(n)
    types = {self_type(n) for n in fns if self_type(n)}
    edges = {}
    for n, d in fns.items():
        st = self_type(n)
        body = re.sub(r"\s+\.", ".", d["text"])
        body = body[body.find("{"):]
        out = set()
        for m in re.finditer(r"([A-Za-z_0-9\.\?\(\)\[\]&:]*?)(\.|::)([a-z_][a-z_0-9]*)\s*(?:::<[^>]*>)?\s*\(", body):
            recv, sep, name = m.group(1), m.group(2), m.group(3)
            if name not in by_short:
                continue
            if sep == "::":
                mm = re.search(r"(\w+)$", recv)
                ty = mm.group(1) if mm else ""
                ty = st if ty == "Self" else ty
                if ty in types:
                    out.update(by_type.get((ty, name), []))
                elif name == "default":
                    out.update(by_short[name])
                continue
            r = re.sub(r"(\?|\(\)|\[[^\]]*\]|\.unwrap\(\)|\.as_mut\(\)|\.as_ref\(\))+$", "", recv)
            r = r.lstrip("(&")
            last = r.split(".")[-1] if r else ""
            if r == "self" or r.endswith("(self"):
                ty = st
            elif STD_RECEIVER.search(r):
                continue
            elif "arena" in r:
                ty = "CompactArena"
            elif "leaf" in last or last == "new_right":
                ty = "LeafNode"
            elif "branch" in last or "parent" in last:
                ty = "BranchNode"
            elif "tree" in last:
                ty = "BPlusTreeMap"
            else:
                ty = None
            if ty is not None and by_type.get((ty, name)):
                out.update(by_type[(ty, name)])
            elif ty is None:
                out.update(by_short[name])
        for m in re.finditer(r"(?<![\.:\w])([a-z_][a-z_0-9]*)\s*\(", body):
            for t in by_short.get(m.group(1), []):
                if self_type(t) is None or len(t.split("::")) == 2:
                    out.add(t)
        # constructing an iterator implies its `Iterator::next`
        if st and d["short"].startswith("new") and (n.rsplit("::", 1)[0] + "::Iterator::next") in fns:
            out.add(n.rsplit("::", 1)[0] + "::Iterator::next")
        out.discard(n)
        edges[n] = sorted(out)
    return edges


def reachable(fns, roots, edges=None):
    edges = edges or resolve_calls(fns)
    seen, todo = set(), [r for r in roots if r in fns]
    while todo:
        n = todo.pop()
        if n in seen:
            continue
        seen.add(n)
        todo.extend(t for t in edges.get(n, []) if t in fns and t not in seen)
    return sorted(seen)


if __name__ == "__main__":
    import sys
    fns, residues = inventory(sys.argv[1] if len(sys.argv) > 1 else "/repo")
    for n in sorted(fns):
        print("%-70s %s %4d" % (n, digest(fns[n]["text"]), len(fns[n]["text"])))
    for f, r in residues.items():
        print("residue %-30s %s %5d" % (f, digest(r), len(r)))
