#!/bin/sh
# usage: tools/ingest_seed3.sh <worktree-name e.g. C07c> <dest id e.g. C07-m3>      (third-round Python / C seeds)
# The sub-agent's seeded_demo.py names its own worktree literally; it is stored with that path rewritten to
# /tmp/confirm-wt, where the change is re-confirmed (demo exits 0 on the clean tree, non-zero with the patch).
name="$1"; dest="$2"
src=/tmp/seed-$name; out=/verif/seeded/$dest
mkdir -p "$out"
git -C "$src" diff > "$out/patch.diff"
sed "s#/tmp/seed-$name#/tmp/confirm-wt#g" "$src/seeded_demo.py" > "$out/demo.py"
files=$(git -C "$src" diff --name-only | tr '\n' ' ')
scr=/tmp/confirm-wt
git -C /repo worktree remove --force "$scr" 2>/dev/null
git -C /repo worktree add -q --detach "$scr" HEAD || exit 1
cp "$out/demo.py" "$scr/seeded_demo.py"
(cd "$scr" && timeout 600 python3 seeded_demo.py > /tmp/confirm-clean.log 2>&1); rc1=$?
git -C "$scr" apply "$out/patch.diff" || { echo "$dest: PATCH DOES NOT APPLY"; exit 1; }
(cd "$scr" && timeout 600 python3 seeded_demo.py > /tmp/confirm-mut.log 2>&1); rc2=$?
echo "$dest: demo-on-clean rc=$rc1 (want 0)  demo-with-patch rc=$rc2 (want !=0)  files: $files" | tee -a /verif/seeded/CONFIRM.log
tail -2 /tmp/confirm-mut.log
git -C /repo worktree remove --force "$scr"
