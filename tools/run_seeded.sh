#!/bin/sh
# usage: tools/run_seeded.sh <seeded-dir> <prop> [<prop> ...]
# applies the seeded change to /repo, runs the named checks (quick), restores /repo.
d="$1"; shift
cd /verif
git -C /repo apply "$(cd /verif; realpath "$d")/patch.diff" || { echo "patch does not apply"; exit 2; }
for p in "$@"; do
  ./check "$p" --tier quick > "build/seeded-$(basename $d)-$p.log" 2>&1
  echo "$(basename $d) $p rc=$? $(grep -c '^VIOLATION' build/seeded-$(basename $d)-$p.log) violation line(s): $(grep '^VIOLATION' build/seeded-$(basename $d)-$p.log | head -2 | tr '\n' ' ')"
done
git -C /repo checkout -- .
python3 /verif/tools/extract.py > /dev/null
