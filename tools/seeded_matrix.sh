#!/bin/bash
# usage: tools/seeded_matrix.sh [ids...]   — runs every seeded change against its own property's quick check
# (and against the extra properties listed in meta.json "also"), one at a time; /repo is restored after each.
cd /verif
ids="$@"; [ -z "$ids" ] && ids=$(ls seeded | grep -- '-m')
for id in $ids; do
  prop=$(jq -r .property seeded/$id/meta.json)
  tools/run_seeded.sh seeded/$id $prop 2>&1 | tail -1
done
