#!/usr/bin/env python3
"""Function-level source inventory of the pure-Python map (python/bplustree/bplus_tree.py, the wrapper
python/bplustree/__init__.py) and of the C extension (python/bplustree_c_src/*.c, bplustree.h):
qualified name -> normalised text.  Python: `ast.dump` of the function with docstrings removed (formatting
and comments do not matter).  C: comments stripped, whitespace collapsed; for every C function two texts,
the full one and one with the reference-count macro statements removed (`logic`), so that a property about
results (C12) and one about reference counts (C13) can pin different things."""
import ast
import hashlib
import os
import re

PY_FILES = {"bplus_tree": "python/bplustree/bplus_tree.py", "wrapper": "python/bplustree/__init__.py"}
C_FILES = ["node_ops.c", "tree_ops.c", "bplustree_module.c"]


def digest(text):
    return hashlib.sha256(text.encode("utf-8")).hexdigest()[:20]


def mangle(name):
    return re.sub(r"[^A-Za-z0-9]", "_", name)


def _strip_doc(fn):
    b = fn.body
    if b and isinstance(b[0], ast.Expr) and isinstance(getattr(b[0], "value", None), ast.Constant) and isinstance(b[0].value.value, str):
        fn.body = b[1:] or [ast.Pass()]
    return fn


def py_inventory(repo):
    out = {}
    for tag, rel in PY_FILES.items():
        p = os.path.join(repo, rel)
        try:
            tree = ast.parse(open(p, encoding="utf-8").read())
        except (OSError, SyntaxError) as ex:
            out["%s::<file>" % tag] = "<unreadable: %s>" % ex
            continue
        rest = []
        for node in tree.body:
            if isinstance(node, ast.ClassDef):
                members = []
                for m in node.body:
                    if isinstance(m, (ast.FunctionDef, ast.AsyncFunctionDef)):
                        for sub in ast.walk(m):
                            if isinstance(sub, (ast.FunctionDef, ast.AsyncFunctionDef)):
                                _strip_doc(sub)
                        out["%s::%s::%s" % (tag, node.name, m.name)] = ast.dump(m, annotate_fields=False)
                        members.append("def " + m.name)
                    elif not (isinstance(m, ast.Expr) and isinstance(getattr(m, "value", None), ast.Constant)):
                        members.append(ast.dump(m, annotate_fields=False))
                rest.append("class %s(%s): %s" % (node.name, ",".join(ast.dump(b, annotate_fields=False) for b in node.bases), "; ".join(members)))
            elif isinstance(node, (ast.FunctionDef, ast.AsyncFunctionDef)):
                _strip_doc(node)
                out["%s::%s" % (tag, node.name)] = ast.dump(node, annotate_fields=False)
            elif not (isinstance(node, ast.Expr) and isinstance(getattr(node, "value", None), ast.Constant)):
                rest.append(ast.dump(node, annotate_fields=False))
        out["%s::<module items>" % tag] = " | ".join(rest)
    return out


def _strip_c_comments(src):
    src = re.sub(r"/\*.*?\*/", " ", src, flags=re.S)
    return re.sub(r"//[^\n]*", "", src)


REFMACRO = re.compile(r"\b(Py_INCREF|Py_XINCREF|Py_DECREF|Py_XDECREF|Py_CLEAR)\s*\([^;]*\)\s*;")


def c_inventory(repo):
    """-> {name: text}; for each function `c::<file>::<fn>` (full) and `c::<file>::<fn>#logic` (refcount macros removed)"""
    out = {}
    base = os.path.join(repo, "python", "bplustree_c_src")
    for f in C_FILES + ["bplustree.h"]:
        p = os.path.join(base, f)
        try:
            src = _strip_c_comments(open(p, encoding="utf-8").read())
        except OSError as ex:
            out["c::%s::<file>" % f] = "<unreadable: %s>" % ex
            continue
        spans = []
        if f.endswith(".c"):
            for m in re.finditer(r"^[A-Za-z_][\w\s\*]*?\b([A-Za-z_]\w*)\s*\([^;{}]*\)\s*\{", src, flags=re.M):
                name = m.group(1)
                if name in ("if", "for", "while", "switch"):
                    continue
                b = src.index("{", m.start())
                depth, j = 0, b
                while j < len(src):
                    if src[j] == "{":
                        depth += 1
                    elif src[j] == "}":
                        depth -= 1
                        if depth == 0:
                            break
                    j += 1
                if spans and m.start() < spans[-1][1]:
                    continue
                text = re.sub(r"\s+", " ", src[m.start():j + 1]).strip()
                out["c::%s::%s" % (f, name)] = text
                out["c::%s::%s#logic" % (f, name)] = re.sub(r"\s+", " ", REFMACRO.sub(" ", src[m.start():j + 1])).strip()
                spans.append((m.start(), j + 1))
        rest, last = [], 0
        for (a, b) in spans:
            rest.append(src[last:a])
            last = b
        rest.append(src[last:])
        out["c::%s::<file items>" % f] = re.sub(r"\s+", " ", " ".join(rest)).strip()
    return out


if __name__ == "__main__":
    import sys
    repo = sys.argv[1] if len(sys.argv) > 1 else "/repo"
    for inv in (py_inventory(repo), c_inventory(repo)):
        for n in sorted(inv):
            print("%-70s %s %5d" % (n, digest(inv[n]), len(inv[n])))
