#!/usr/bin/env python3
"""Regenerates MANIFEST.json from tools/props.py (claimed checks) and properties.jsonl."""
import json
import os
import sys

ROOT = os.path.normpath(os.path.join(os.path.dirname(os.path.abspath(__file__)), ".."))
sys.path.insert(0, os.path.join(ROOT, "tools"))
import props as P  # noqa

TEXT = {
    "C01": ("proof", "Lean 4 refinement theorem: for every capacity >= 4 and every finite history of insert/remove/get/get_mut-write/contains_key/get_or_default/len/is_empty/clear, the executable model of the Rust map never panics and returns exactly what a strictly sorted association list (BTreeMap observationally) returns; insert keeps the first key object; other entries untouched. Proved by invariant (order + occupancy) preserved through insert (splits, root growth) and remove (all 8 borrow/merge variants, root collapse). Model tied to the code by regenerated threshold/split-point tie lemmas and a differential run comparing every return value and full structural dumps (ids, links, free lists) after every call; results also checked against std BTreeMap."),
    "C02": ("proof", "Lean 4 theorems on the raw-arena readers of the model: on every reachable state items()/slice()/keys()/values() yield exactly the abstraction (strictly ascending, each entry once, paired with the current value), first()/last() are its head/last, an exhausted iterator stays exhausted, interleaved iterators do not influence each other. Rests on the chain/ids invariants proved for all mutators. items_fast() is decided by the correspondence run + oracle only (stated)."),
    "C04": ("proof", "Lean 4: the structural invariant SInv (strict key order, arity, separator bounds, occupancy floor(cap/2)..cap for non-root nodes, branch root >= 2 children, leaf chain = leaves in order ending in NULL, id bookkeeping) holds for new() and is preserved by insert, remove, get_mut writes and clear for every capacity >= 4, hence for every reachable state; same depth is intrinsic to the height-indexed tree; height_log gives len >= 2*(cap/2)*(cap/2+1)^(h-1). Independent structural checker + the crate's validators run after every mutation in the harness. validators-accept clause: oracle + correspondence, not yet a theorem."),
    "C06": ("proof", "Lean 4: for both arenas, every slot below the storage length is either the id of exactly one reachable node or exactly once on the free list (IdsOK), preserved by all mutators incl. merges, branch splits and multi-level root collapse; the arena view is a well-formed CompactArena whose allocated counts equal the reachable node counts; clear() leaves one empty leaf; the allocator reuses freed ids before growing. Raw arena state (mask, free-list order) compared with the model after every call. Churn bound and introspection calls: oracle + correspondence (stated)."),
    "C10": ("proof", "Lean 4: new/empty reject exactly c < 4 for every natural c and otherwise give an empty valid map; Default succeeds; try_get/get_item = get.ok_or(KeyNotFound); get_many fails iff a key is absent else returns values in order; batch_insert = the inserts one by one. Constructor guard regenerated from construction.rs and tied. Capacities 0..=4096 enumerated against the model; checked and basic calls mixed in differential histories. 'never reports an integrity error' rests on validators accepting valid states (oracle + correspondence)."),
    "C11": ("proof", "Lean 4 for the logic part: value multiset conservation for insert and remove (returned/displaced value is the stored one, nothing duplicated), live values = len, leaf keys = len so live keys lie in [len, len + separators], freed slots hold default empty nodes, clear owns nothing. 'Dropped exactly once' is Rust ownership: translator inventory proves no manual-ownership primitive in the crate; instance-counting K/V in the harness check live counts after every call and after drop. Labelled partial for the Drop clause."),
    "C03": ("proof", "Lean 4: on every reachable state range(lo, hi) for all nine Bound combinations yields exactly the entries of the abstraction inside the bounds, ascending (empty or inverted intervals yield nothing, never a panic); items_range(a, b) and the explicit-end constructor likewise. Proved on the model of the code with D1/D2 repaired; Legacy lemmas prove the pre-repair behaviour wrong on the recorded witnesses; the two repaired guards are regenerated from range_queries.rs / iteration.rs and tied. Differential runs compare all bound kinds x endpoints (present keys, gaps, leaf boundaries, extremes) with the model and with BTreeMap::range."),
    "C05": ("proof", "Lean 4: every reader of the model returns its result together with the precondition check of each unchecked access it performs (Res.ub otherwise); on every reachable state no reader, iterator step, range query or validator reaches ub. The inventory of `unsafe` tokens and *_unchecked call sites is regenerated from rust/src and must equal the catalogue the model covers (tie lemmas). The hooked build asserts the documented precondition inside every unchecked accessor during all differential runs. 'No UB elsewhere' rests on safe Rust (stated)."),
    "C14": ("proof", "Lean 4 over ALL raw arena states (no invariant assumed): check_invariants = ok true implies every node reachable from the root is allocated, strictly sorted, has parallel key/value arrays, at most capacity and (non-root) at least capacity/2 keys, correct arity, and all keys of every subtree inside the interval its ancestors allow; contrapositives give rejection of each node-level damage kind; the detailed validator rejects whatever the basic one rejects. Model of the code with D3 repaired (tie); Legacy lemma shows the old guard accepting an emptied leaf. Chain / orphan damage kinds: decided by the oracle and the validator correspondence on ~14 kinds of injected damage (stated partial)."),
    "C15": ("proof", "Lean 4 over ALL raw arena states (what any sequence of safe helper calls can produce): no reader, iterator step, range query or validator of the model reaches an unchecked access outside its precondition (Res.ub), with D4 repaired; legacy witnesses prove the pre-repair code reached ub. Tied by the regenerated inventory of unsafe / unchecked call sites. Helper-misuse programs run on the hooked build (precondition assertions inside the unchecked accessors) and on the model."),
    "C07": ("proof", "Lean 4 refinement theorem for the pure-Python map: for every capacity >= 4 and every finite history of __setitem__/__delitem__/get/__getitem__/__contains__/len/bool/pop/popitem/setdefault/update/copy/clear/items the executable model never raises anything but KeyError and answers exactly what a strictly sorted association list (dict observed in key order) answers; None is a value like any other; popitem removes the smallest key; capacities < 4 rejected. Proved through the structural invariant (order, occupancy (cap-1)//2, chain) preserved by _insert_recursive and _delete_recursive/_handle_underflow (all borrow/merge paths, root collapse). Model tied to the source by regenerated thresholds + the normalised source text of every modelled function (TiePy) and by a differential run (every return value + full structural dump, 5 key representations, None values) also checked against dict. 'len for any size': translator + deep run (partial, stated)."),
    "C08": ("proof", "Lean 4: on every valid state (hence after every history, by C07) items(a, b) of the model - the descent to the start leaf, bisect inside it, the chain walk and the exclusive end test - equals the filter a <= key < b of the strictly ascending entry list, for present/absent endpoints, None bounds, empty and inverted intervals; keys/values are its projections; the chain walk visits exactly the leaves in tree order. Differential run: bounded scans with endpoints from present/absent keys, sentinels and None vs the model and vs sorted(dict)."),
    "C09": ("proof", "Lean 4: the invariant PInv (strict key order, arity, separator bounds, leaves <= capacity, branches <= capacity-1, non-root nodes >= (capacity-1)//2, branch root >= 2 children, chain from self.leaves = leaves in order ending in None; same depth intrinsic to the height-indexed type) holds for BPlusTreeMap(cap) and is preserved by assignment, deletion and clear for every capacity >= 4, hence for every reachable state; no call raises. Code with D8 repaired (tie). Independent structural walk after every mutation + exhaustive small histories at capacities 4-6 + full dump correspondence. from_sorted_items: oracle + correspondence only so far (stated partial)."),
    "C12": ("proof", "Lean 4 refinement theorem for the C extension model: for every capacity in [4, 2^16) and every finite history of __setitem__/__delitem__/__getitem__/__contains__/len and the wrapper's get/pop/setdefault/update, the model answers what a sorted association list (dict in key order) answers, reaches no error other than KeyError and never leaves the allocated node geometry; invariant (order, arity, bounds, capacity, size = entries, chain; no lower occupancy: deletions do not rebalance) preserved through leaf/branch splits and root growth. Fail-fast: the iterator raises RuntimeError as its first action whenever the stamps differ and every successful mutation strictly increases the stamp. Tied by regenerated constants, guards, split points, stamp increments and the first test of the iterator, and by a differential run through the type, a subclass and the package wrapper with four key representations, full structural dumps, and a dict oracle. Drained-iterator = contents: oracle + correspondence (stated partial)."),
    "C13": ("proof", "Lean 4 on the C model with explicit slot geometry and reference-count events: no call on a valid state writes outside the allocated arrays (for all capacities and histories); for every __setitem__ (insert, overwrite, leaf split, branch split with separator ownership moving up, root growth), __delitem__, lookup and destroy, slots-after ++ DECREFs = slots-before ++ INCREFs as multisets, so every occupied slot owns exactly one reference and destroy releases exactly the slots; the constructor stores exactly the capacity it accepts (4 <= c < 2^16). Legacy lemmas prove the pre-repair leak (D9) and truncation (D11) by decide. Tied by the regenerated per-function inventory of Py_INCREF/DECREF sites, header field widths and constructor guards. Observed, not proved (stated): allocator protocol for subclass instances (D10), GC, use-after-free — AddressSanitizer replay of every history, refcount audit of every tracked object after every mutation and after destroy, subclass/wrapper lifecycles, capacities across and beyond 16 bits."),
    "C16": ("proof", "Lean 4 theorems over an executable model of CompactArena: a well-formedness invariant preserved by every call (all histories from new(), by induction), each call refines a partial map handle->item (fresh non-null handles, exact get/contains, release-once, exact counters, clear, compact keeps live items), allocate fails only when 2^32-1 slots are live. Tied to the code by a regenerated guard/constant tie and a differential run of the real arena vs the compiled model including free-list order."),
}
NOTE = "Trusted: Lean kernel; axioms propext/Classical.choice/Quot.sound only (audited per run); tools/extract.py and the harness; Vec/slice/mem::take/binary_search semantics; lawful total order on keys; arena slots < 2^32-1 for tree-level theorems (C16 treats the limit). The theorems are about the Lean model; the model is tied to /repo by regenerated tie lemmas and by the per-run correspondence (same op lines on real code and compiled model, all outputs and dumps diffed)."
TECH = "Lean 4 proof (invariants + refinement over all histories) with translator tie and model/implementation correspondence"


def main():
    props = [json.loads(l) for l in open(os.path.join(ROOT, "properties.jsonl"))]
    claimed = [p["id"] for p in props if p["id"] in P.PROPS]
    checks = []
    for pid in claimed:
        cat, text = TEXT.get(pid, ("proof", P.PROPS[pid]["title"]))
        checks.append({
            "property_id": pid,
            "quick_cmd": "./check %s --tier quick" % pid,
            "thorough_cmd": "./check %s --tier thorough" % pid,
            "evidence_file": "evidence/%s.json" % pid,
            "replay_cmd_template": "./check %s --replay {path}" % pid,
            "engine": "lean-model",
            "level_claimed": {"category": cat, "text": text, "design_ref": "DESIGN.md §4 %s" % pid},
            "level_note": NOTE + (" " + " ".join(P.PROPS[pid].get("trusted_extra", [])) if P.PROPS[pid].get("trusted_extra") else ""),
            "technique": TECH,
        })
    hooks_commits = [l.strip() for l in open(os.path.join(ROOT, "tools", "hook_commits.txt")) if l.strip()] if os.path.exists(os.path.join(ROOT, "tools", "hook_commits.txt")) else []
    m = {
        "version": 1,
        "setup_cmd": "./setup.sh",
        "hooks": {
            "guard": "kentbeck_bplustree3_verif",
            "enable": "RUSTFLAGS=\"--cfg kentbeck_bplustree3_verif\" (set in /verif/harness/rust/.cargo/config.toml); C extension: -DKENTBECK_BPLUSTREE3_VERIF",
            "baseline_off_cmd": "cd /repo && CARGO_NET_OFFLINE=true cargo test --workspace --no-fail-fast --offline",
            "source_commits": hooks_commits,
            "add_only": True,
        },
        "engines": [
            {"name": "lean-model", "path": "lean", "serves_properties": claimed, "kind_free_text": "Lean 4 models, theorems (BPT/Props), tie lemmas (BPT/Generated), compiled line-protocol driver (Driver/)"},
            {"name": "rust-harness", "path": "harness/rust", "serves_properties": [c for c in claimed if c not in ("C07", "C08", "C09", "C12", "C13")], "kind_free_text": "in-process driver of the real Rust code with independent oracles; emits the op lines the model replays"},
            {"name": "py-harness", "path": "harness/py", "serves_properties": [c for c in claimed if c in ("C07", "C08", "C09")], "kind_free_text": "in-process driver of the real pure-Python map with dict / structural oracles; emits the op lines the model replays"},
            {"name": "c-harness", "path": "harness/py/charness.py", "serves_properties": [c for c in claimed if c in ("C12", "C13")], "kind_free_text": "builds bplustree_c from /repo's sources (plain + AddressSanitizer, hook flag on), drives it in-process through the type, a subclass and the package wrapper with dict / refcount oracles"},
            {"name": "translator", "path": "tools/extract.py", "serves_properties": claimed, "kind_free_text": "regenerates constants, thresholds, guards and unsafe/ownership inventories from /repo into Lean"},
        ],
        "checks": checks,
        "notes": "See DESIGN.md. All sixteen properties are claimed; clauses that live in a runtime the model cannot express are named in each check's level_note.",
        "not_applicable": [{"property_id": p["id"], "reason": "check not built yet in this session (model/theorems in progress); the technique applies, see DESIGN.md §4"} for p in props if p["id"] not in claimed],
    }
    json.dump(m, open(os.path.join(ROOT, "MANIFEST.json"), "w"), indent=1)
    print("manifest: %d checks, %d not yet claimed" % (len(checks), len(m["not_applicable"])))


if __name__ == "__main__":
    main()
