#!/usr/bin/env python3
"""Translator: regenerates lean/BPT/Generated/Source.lean from /repo's current
sources on every run.  What it extracts (constants, policy expressions, unsafe /
ownership / refcount inventories) is then *proved equal* to what the
hand-written models use, in BPT/Generated/Tie.lean.  A changed threshold, a new
unchecked call site or a missing guard therefore breaks a proof obligation at
`lake build`.  Anything that cannot be found or parsed is emitted as a
`missing` marker, which also breaks the corresponding tie lemma."""
import os
import re
import sys

sys.path.insert(0, os.path.dirname(os.path.abspath(__file__)))
from exprtrans import translate, TranslateError  # noqa: E402

REPO = os.environ.get("VERIF_REPO", "/repo")
OUT = os.path.join(os.path.dirname(os.path.abspath(__file__)), "..", "lean", "BPT", "Generated", "Source.lean")


def read(rel):
    with open(os.path.join(REPO, rel), encoding="utf-8") as f:
        return f.read()


def strip_comments(src, lang="rust"):
    if lang in ("rust", "c"):
        src = re.sub(r"/\*.*?\*/", lambda m: re.sub(r"[^\n]", " ", m.group(0)), src, flags=re.S)
        src = re.sub(r"//[^\n]*", "", src)
    else:
        src = re.sub(r"#[^\n]*", "", src)
    return src


def match_brace(src, i):
    """src[i] == '{' -> index just after the matching '}' (string/char literals are rare in these files and ignored)"""
    depth = 0
    j = i
    while j < len(src):
        c = src[j]
        if c == "{":
            depth += 1
        elif c == "}":
            depth -= 1
            if depth == 0:
                return j + 1
        j += 1
    raise ValueError("unbalanced braces")


def rust_fn(src, name, after=None):
    """body (without outer braces) of `fn name` — the first one after the marker `after`."""
    start = 0
    if after:
        start = src.find(after)
        if start < 0:
            return None
    m = re.compile(r"\bfn\s+" + re.escape(name) + r"\b").search(src, start)
    if not m:
        return None
    b = src.find("{", m.end())
    e = match_brace(src, b)
    return src[b + 1:e - 1]


def tail_expr(body):
    stmts = [s.strip() for s in body.strip().split("\n") if s.strip()]
    return " ".join(stmts[-1:]) if stmts else ""


def let_exprs(body, var):
    return [m.group(1).strip() for m in re.finditer(r"\blet\s+(?:mut\s+)?" + re.escape(var) + r"\s*=\s*([^;]+);", body)]


class Gen:
    def __init__(self):
        self.lines = []
        self.problems = []

    def const(self, name, value, comment):
        self.lines.append("/-- %s -/\ndef %s : Nat := %s" % (comment, name, value))

    def missing(self, name, why, params=""):
        self.problems.append("%s: %s" % (name, why))
        # an `Option`-typed marker: the tie lemma expects a plain value, so it no longer type-checks
        self.lines.append("/-- NOT FOUND by the translator: %s -/\ndef %s : Unit := ()" % (why.replace("-/", "- /"), name))

    def fn_nat(self, name, params, expr, env, comment):
        try:
            lean = translate(expr, env)
        except (TranslateError, Exception) as ex:  # noqa
            self.missing(name, "cannot translate `%s` (%s)" % (expr, ex))
            return
        self.lines.append("/-- %s : `%s` -/\ndef %s %s : Nat := %s" % (comment, expr.replace("-/", "- /"), name, params, lean))

    def fn_bool(self, name, params, expr, env, comment):
        try:
            lean = translate(expr, env)
        except (TranslateError, Exception) as ex:  # noqa
            self.missing(name, "cannot translate `%s` (%s)" % (expr, ex))
            return
        self.lines.append("/-- %s : `%s` -/\ndef %s %s : Bool := decide %s" % (comment, expr.replace("-/", "- /"), name, params, lean))

    def string(self, name, text, comment):
        self.lines.append("/-- %s -/\ndef %s : String :=\n  \"%s\"" % (comment, name, text.replace("\\", "\\\\").replace('"', "'")))

    def str_list(self, name, items, comment):
        body = ",\n   ".join('"%s"' % s.replace('"', "'") for s in items)
        self.lines.append("/-- %s -/\ndef %s : List String :=\n  [%s]" % (comment, name, body))


def enclosing_fns(src):
    """list of (start, end, name) for every fn item in src"""
    out = []
    for m in re.finditer(r"\bfn\s+([A-Za-z_0-9]+)\b", src):
        b = src.find("{", m.end())
        semi = src.find(";", m.end())
        if b < 0 or (0 <= semi < b):
            continue
        try:
            e = match_brace(src, b)
        except ValueError:
            continue
        out.append((m.start(), e, m.group(1)))
    return out


def fn_at(fns, pos):
    best = None
    for (s, e, n) in fns:
        if s <= pos < e and (best is None or s > best[0]):
            best = (s, e, n)
    return best[2] if best else "<top>"


def rust_part(g):
    types = strip_comments(read("rust/src/types.rs"))
    arena = strip_comments(read("rust/src/compact_arena.rs"))
    node = strip_comments(read("rust/src/node.rs"))
    cons = strip_comments(read("rust/src/construction.rs"))
    ins = strip_comments(read("rust/src/insert_operations.rs"))
    dele = strip_comments(read("rust/src/delete_operations.rs"))

    def const_from(src, name, fname):
        m = re.search(r"const\s+" + name + r"\s*:\s*(\w+)\s*=\s*([^;]+);", src)
        if not m:
            g.missing("rust_" + name + fname, "constant %s not found" % name)
            return
        ty, val = m.group(1), m.group(2).strip()
        if val == "u32::MAX":
            val = "4294967295"
        if not re.fullmatch(r"\d+", val):
            g.missing("rust_" + name + fname, "constant %s has unexpected value %s" % (name, val))
            return
        g.const("rust_" + name + fname, val, "%s: %s" % (name, ty))

    const_from(types, "MIN_CAPACITY", "")
    const_from(types, "NULL_NODE", "")
    const_from(arena, "NULL_NODE", "_arena")
    const_from(cons, "DEFAULT_CAPACITY", "")
    m = re.search(r"pub type NodeId\s*=\s*(\w+);", arena)
    g.const("rust_NodeId_bits", {"u32": 32, "u64": 64, "u16": 16}.get(m.group(1), 0) if m else 0, "width of NodeId in compact_arena.rs")

    # constructors: the capacity guard
    for fn in ("new", "empty"):
        body = rust_fn(cons, fn, after="impl<K, V> BPlusTreeMap<K, V>")
        mm = re.search(r"if\s+(.+?)\s*\{\s*return\s+Err\(BPlusTreeError::invalid_capacity", body or "", flags=re.S)
        if mm:
            g.fn_bool("rust_%s_rejects" % fn, "(capacity : Nat)", mm.group(1), {"capacity": "capacity", "MIN_CAPACITY": "rust_MIN_CAPACITY"}, "BPlusTreeMap::%s rejects" % fn)
        else:
            g.missing("rust_%s_rejects" % fn, "capacity guard of BPlusTreeMap::%s not found" % fn)

    # arena: first index that allocate() refuses to issue on the new-slot path
    body = rust_fn(arena, "allocate") or ""
    guard = re.search(r"assert!\(\s*index\s*<\s*NULL_NODE\s+as\s+usize", body) or re.search(r"if\s+index\s*>=\s*NULL_NODE\s+as\s+usize\s*\{\s*panic!", body)
    if guard:
        g.const("rust_arena_alloc_limit", "rust_NULL_NODE_arena", "allocate() refuses index NULL_NODE (guard present)")
    elif "NodeId::try_from(index)" in body:
        g.const("rust_arena_alloc_limit", "rust_NULL_NODE_arena + 1", "allocate() only fails when the index does not fit NodeId")
    else:
        g.missing("rust_arena_alloc_limit", "cannot classify the index check in CompactArena::allocate")

    # thresholds of both node kinds
    env = {"self.capacity": "cap", "self.keys.len()": "n"}
    for kind, marker in (("leaf", "LeafNode<K, V> {"), ("branch", "BranchNode<K, V> {")):
        first = node.find("impl<K: Ord + Clone, V: Clone> " + marker)
        sub = node[first:] if kind == "branch" else node[first:node.find("impl<K: Ord + Clone, V: Clone> BranchNode<K, V> {")]
        b = rust_fn(sub, "min_keys")
        if b is None:
            g.missing("rust_%s_min_keys" % kind, "fn min_keys not found")
        else:
            g.fn_nat("rust_%s_min_keys" % kind, "(cap : Nat)", tail_expr(b), env, "%s min_keys()" % kind)
        env2 = dict(env)
        env2["self.min_keys()"] = "(rust_%s_min_keys cap)" % kind
        for fn in ("is_full", "is_underfull", "can_donate"):
            b = rust_fn(sub, fn)
            if b is None:
                g.missing("rust_%s_%s" % (kind, fn), "fn %s not found" % fn)
            else:
                g.fn_bool("rust_%s_%s" % (kind, fn), "(cap n : Nat)", tail_expr(b), env2, "%s %s()" % (kind, fn))

    # leaf split point: both copies (LeafNode::split and the inlined one in insert_into_leaf)
    def split_mid(body, name, envx):
        mids = let_exprs(body or "", "mid")
        mk = let_exprs(body or "", "min_keys")
        if len(mids) != 2 or len(mk) != 1:
            g.missing(name, "expected `let min_keys`, two `let mid` bindings")
            return
        e = dict(envx)
        try:
            e["min_keys"] = translate(mk[0], e)
            e["mid"] = translate(mids[0], e)
        except TranslateError as ex:
            g.missing(name, "cannot translate split point (%s)" % ex)
            return
        g.fn_nat(name, "(cap n : Nat)", mids[1], e, "leaf split point")

    leaf_sub = node[node.find("impl<K: Ord + Clone, V: Clone> LeafNode<K, V> {"):node.find("impl<K: Ord + Clone, V: Clone> BranchNode<K, V> {")]
    split_mid(rust_fn(leaf_sub, "split"), "rust_leaf_split_mid_node",
              {"self.capacity": "cap", "self.min_keys()": "(rust_leaf_min_keys cap)", "self.keys.len()": "n", "total_keys": "n"})
    split_mid(rust_fn(ins, "insert_into_leaf"), "rust_leaf_split_mid_insert",
              {"leaf.capacity": "cap", "leaf.keys.len()": "n", "total_keys": "n"})
    # which side receives the new entry
    b = rust_fn(ins, "insert_into_leaf") or ""
    mm = re.search(r"if\s+(index\s*[<>=]+\s*leaf_keys_len)\s*\{", b)
    if mm:
        g.fn_bool("rust_leaf_insert_goes_left", "(index mid : Nat)", mm.group(1), {"index": "index", "leaf_keys_len": "mid"}, "insert_into_leaf: entry goes to the left half")
    else:
        g.missing("rust_leaf_insert_goes_left", "side test in insert_into_leaf not found")
    # branch split point
    branch_sub = node[node.find("impl<K: Ord + Clone, V: Clone> BranchNode<K, V> {"):]
    b = rust_fn(branch_sub, "split_data") or ""
    mids = let_exprs(b, "mid")
    mk = let_exprs(b, "min_keys")
    if len(mids) == 1 and len(mk) == 1:
        e = {"self.min_keys()": "(rust_branch_min_keys cap)", "self.capacity": "cap"}
        try:
            e["min_keys"] = translate(mk[0], e)
            g.fn_nat("rust_branch_split_mid", "(cap : Nat)", mids[0], e, "branch split point (index of the promoted key)")
        except TranslateError as ex:
            g.missing("rust_branch_split_mid", str(ex))
    else:
        g.missing("rust_branch_split_mid", "expected one `let mid` and one `let min_keys` in split_data")
    # the four inlined can-donate tests of rebalance_child
    b = rust_fn(dele, "rebalance_child") or ""
    tests = re.findall(r"\.map\(\|(\w+)\|\s*(\w+\.keys\.len\(\)\s*[<>=]+\s*\w+\.min_keys\(\))\)", b)
    exprs = []
    for var, ex in tests:
        try:
            exprs.append(translate(ex, {var + ".keys.len()": "n", var + ".min_keys()": "(rust_%s_min_keys cap)" % var}))
        except TranslateError as exn:
            exprs.append("<untranslatable %s>" % exn)
    g.str_list("rust_rebalance_can_donate_tests", exprs, "the inlined sibling can-donate tests in rebalance_child, translated")

    # repaired-defect guards (D1-D4): the model's `Cfg.repaired` switches, regenerated from the code
    rq = strip_comments(read("rust/src/range_queries.rs"))
    b = rust_fn(rq, "resolve_range_bounds") or ""
    m1 = re.search(r"Bound::Excluded\(key\)\s*=>\s*(.*?)Bound::Unbounded", b, flags=re.S)
    arm = m1.group(1) if m1 else ""
    skip_only_matched = ("find_leaf_for_key_with_match" in arm) and re.search(r",\s*matched\)", arm) is not None and not re.search(r",\s*true\)", arm)
    g.lines.append("/-- D1: `range()` skips the first item only when the excluded start key was matched -/\ndef rust_range_skip_only_matched : Bool := %s" % ("true" if skip_only_matched else "false"))
    it = strip_comments(read("rust/src/iteration.rs"))
    b = rust_fn(it, "try_get_next_item") or ""
    m2 = re.search(r"if let Some\(end_key\) = self\.end_key\s*\{(.*?)\}\s*else if", b, flags=re.S)
    arm = m2.group(1) if m2 else ""
    honours = re.search(r"if\s+self\.end_inclusive\s*\{\s*key\s*>\s*end_key\s*\}\s*else\s*\{\s*key\s*>=\s*end_key", arm) is not None
    g.lines.append("/-- D2: the borrowed end key honours `end_inclusive` -/\ndef rust_end_key_honours_inclusive : Bool := %s" % ("true" if honours else "false"))
    m3 = re.search(r"if\s+(.*?)\{\s*return None;", b, flags=re.S)
    guard = re.sub(r"\s+", " ", m3.group(1)) if m3 else ""
    guard_both = ("leaf.keys_len()" in guard) and ("leaf.values_len()" in guard) and ("||" in guard)
    g.lines.append("/-- D4: the unchecked key/value read in `try_get_next_item` is guarded by both lengths : `%s` -/\ndef rust_iter_guard_both : Bool := %s" % (guard.replace("-/", "- /"), "true" if guard_both else "false"))
    va = strip_comments(read("rust/src/validation.rs"))
    b = rust_fn(va, "check_node_invariants") or ""
    occ = re.findall(r"if\s+([^{]*?is_underfull\(\))\s*\{", b)
    checks_empty = len(occ) == 2 and all("is_empty" not in o for o in occ)
    g.lines.append("/-- D3: the occupancy test of `check_node_invariants` is not skipped for empty nodes : %s -/\ndef rust_validator_checks_empty : Bool := %s" % (str([re.sub(r"\s+", " ", o) for o in occ]).replace("-/", "- /"), "true" if checks_empty else "false"))

    # the checked / bulk wrappers (C10, C14): their bodies as normalised source text (the model in
    # BPT/Rust/Checked.lean is a line-by-line transcription of exactly this text)
    lib = strip_comments(read("rust/src/lib.rs"))
    getops = strip_comments(read("rust/src/get_operations.rs"))
    for (src, fn, label) in ((lib, "try_insert", "lib.rs"), (lib, "try_remove", "lib.rs"), (lib, "batch_insert", "lib.rs"),
                             (getops, "get_item", "get_operations.rs"), (getops, "try_get", "get_operations.rs"),
                             (getops, "get_many", "get_operations.rs"), (getops, "contains_key", "get_operations.rs"),
                             (getops, "get_or_default", "get_operations.rs"),
                             (dele, "remove_item", "delete_operations.rs"),
                             (va, "validate", "validation.rs"), (va, "validate_for_operation", "validation.rs")):
        b = rust_fn(src, fn)
        if b is None:
            g.missing("rust_src_" + fn, "fn %s not found in %s" % (fn, label))
        else:
            g.string("rust_src_" + fn, re.sub(r"\s+", " ", b).strip(), "body of `%s` (%s), comments stripped, whitespace normalised" % (fn, label))

    # inventories over the library sources (bins, benches, tests excluded)
    lib_files = sorted(f for f in os.listdir(os.path.join(REPO, "rust/src")) if f.endswith(".rs"))
    unsafe_sites, unchecked_calls, interior, manual = [], [], [], []
    for f in lib_files:
        raw = read("rust/src/" + f)
        # drop #[cfg(test)] modules
        src = strip_comments(raw)
        cut = src.find("#[cfg(test)]")
        body = src if cut < 0 else src[:cut]
        fns = enclosing_fns(body)
        for m in re.finditer(r"\bunsafe\b\s*(fn\s+\w+|\{)", body):
            what = m.group(1)
            if what.startswith("fn"):
                unsafe_sites.append("%s: unsafe %s" % (f, re.sub(r"\s+", " ", what)))
            else:
                unsafe_sites.append("%s: %s: unsafe block" % (f, fn_at(fns, m.start())))
        for m in re.finditer(r"\.(get_\w*unchecked\w*)\(", body):
            unchecked_calls.append("%s: %s: %s" % (f, fn_at(fns, m.start()), m.group(1)))
        for m in re.finditer(r"\b(RefCell|UnsafeCell|Cell<|OnceCell|static\s+mut|Atomic\w+|Mutex|RwLock|thread_local)", body):
            interior.append("%s: %s" % (f, m.group(1)))
        for m in re.finditer(r"\b(mem::forget|ManuallyDrop|ptr::read|ptr::write|set_len|from_raw_parts|from_raw|MaybeUninit|transmute)\b", body):
            manual.append("%s: %s: %s" % (f, fn_at(fns, m.start()), m.group(1)))
    g.str_list("rust_unsafe_sites", unsafe_sites, "every `unsafe` token in rust/src (non-test code)")
    g.str_list("rust_unchecked_calls", unchecked_calls, "every call of a *_unchecked accessor in rust/src (non-test code), with its enclosing fn")
    g.str_list("rust_leaf_unchecked_followers", [c for c in unchecked_calls if c.startswith("iteration.rs") and "get_leaf_unchecked" in c],
               "D4: places in iteration.rs that follow a leaf id through get_leaf_unchecked")
    g.str_list("rust_interior_mutability", interior, "interior mutability / shared mutable state in rust/src")
    g.str_list("rust_manual_ownership", manual, "manual ownership primitives in rust/src")


def rust_fn_digests(g):
    """digest of the normalised text of every Rust function / file residue (tools/rustfns.py); the lemmas of
    BPT/Generated/TieRust.lean pin each to the text the Lean model was written against"""
    import json
    import rustfns
    fns, residues = rustfns.inventory(REPO)
    snap_path = os.path.join(os.path.dirname(os.path.abspath(__file__)), "rustfn_snapshot.json")
    snap = json.load(open(snap_path)) if os.path.exists(snap_path) else {"functions": {}, "residues": {}}
    for n, d in sorted(fns.items()):
        g.lines.append("/-- digest of `%s` (%d chars, normalised) -/\ndef rustfn_%s : String := \"%s\"" % (n, len(d["text"]), rustfns.mangle(n), rustfns.digest(d["text"])))
    for n in sorted(snap["functions"]):
        if n not in fns:
            g.missing("rustfn_" + rustfns.mangle(n), "function %s no longer exists" % n)
    for f, t in sorted(residues.items()):
        g.lines.append("/-- digest of the items of `%s` outside function bodies -/\ndef rustres_%s : String := \"%s\"" % (f, rustfns.mangle(f), rustfns.digest(t)))
    # current texts, for the report of a broken tie (a unified diff against the snapshot)
    cur = os.path.join(os.path.dirname(os.path.abspath(__file__)), "..", "build", "rustfn_current.json")
    try:
        os.makedirs(os.path.dirname(cur), exist_ok=True)
        with open(cur, "w") as f:
            json.dump({"functions": {n: d["text"] for n, d in fns.items()}, "residues": residues}, f)
    except OSError:
        pass


def src_fn_digests(g):
    """the same for every function of the pure-Python map, the C extension and the package wrapper (tools/srcfns.py)"""
    import json
    import srcfns
    inv = dict(srcfns.py_inventory(REPO))
    inv.update(srcfns.c_inventory(REPO))
    snap_path = os.path.join(os.path.dirname(os.path.abspath(__file__)), "srcfn_snapshot.json")
    snap = json.load(open(snap_path)) if os.path.exists(snap_path) else {"functions": {}}
    for n, t in sorted(inv.items()):
        g.lines.append("/-- digest of `%s` (%d chars, normalised) -/\ndef srcfn_%s : String := \"%s\"" % (n.replace("-/", "- /"), len(t), srcfns.mangle(n), srcfns.digest(t)))
    for n in sorted(snap["functions"]):
        if n not in inv:
            g.missing("srcfn_" + srcfns.mangle(n), "function %s no longer exists" % n)
    cur = os.path.join(os.path.dirname(os.path.abspath(__file__)), "..", "build", "srcfn_current.json")
    try:
        os.makedirs(os.path.dirname(cur), exist_ok=True)
        with open(cur, "w") as f:
            json.dump({"functions": inv}, f)
    except OSError:
        pass


def main():
    g = Gen()
    rust_part(g)
    rust_fn_digests(g)
    src_fn_digests(g)
    try:
        from extract_py import python_part  # noqa
        python_part(g, read, strip_comments)
    except ImportError:
        pass
    try:
        from extract_c import c_part  # noqa
        c_part(g, read, strip_comments)
    except ImportError:
        pass
    text = "/-\n  GENERATED by tools/extract.py from the sources under /repo — do not edit.\n  Regenerated on every check run; BPT/Generated/Tie.lean proves these equal to\n  what the hand-written models use.\n-/\nnamespace BPT.Generated\n\n" + "\n\n".join(g.lines) + "\n\nend BPT.Generated\n"
    out = os.path.normpath(OUT)
    os.makedirs(os.path.dirname(out), exist_ok=True)
    old = None
    if os.path.exists(out):
        with open(out, encoding="utf-8") as f:
            old = f.read()
    if old != text:
        with open(out, "w", encoding="utf-8") as f:
            f.write(text)
    for p in g.problems:
        print("extract: PROBLEM " + p)
    print("extract: wrote %s (%d items, %d problems, %s)" % (out, len(g.lines), len(g.problems), "unchanged" if old == text else "changed"))


if __name__ == "__main__":
    main()
