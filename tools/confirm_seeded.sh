#!/bin/bash
# Confirms every seeded change in a scratch worktree: (1) demo passes on the unmodified tree,
# (2) with the patch the pinned suite still passes, (3) with the patch the demo fails.
W=/tmp/confirm-wt
LOG=/verif/seeded/CONFIRM.log
git -C /repo worktree remove --force $W 2>/dev/null
git -C /repo worktree add -q --detach $W HEAD || exit 1
: > $LOG
export CARGO_NET_OFFLINE=true
for d in /verif/seeded/*/; do
  id=$(basename $d)
  [ -f $d/patch.diff ] || continue
  [ -f $d/demo.rs ] || { echo "$id: no demo.rs (python/C demo handled separately)" >> $LOG; continue; }
  cp $d/demo.rs $W/rust/tests/zz_demo.rs
  (cd $W && cargo test --offline -p bplustree --test zz_demo > /tmp/confirm-clean.log 2>&1); clean=$?
  git -C $W apply $d/patch.diff || { echo "$id: PATCH DOES NOT APPLY" >> $LOG; git -C $W checkout -- .; rm -f $W/rust/tests/zz_demo.rs; continue; }
  (cd $W && cargo test --offline -p bplustree --test zz_demo > /tmp/confirm-mut.log 2>&1); mut=$?
  rm -f $W/rust/tests/zz_demo.rs
  (cd $W && cargo test --workspace --no-fail-fast --offline > /tmp/confirm-suite.log 2>&1); suite=$?
  passed=$(grep -E "^test result" /tmp/confirm-suite.log | awk '{s+=$4} END{print s}')
  failed=$(grep -E "^test result" /tmp/confirm-suite.log | awk '{s+=$6} END{print s}')
  echo "$id: demo-on-clean rc=$clean (want 0)  demo-with-patch rc=$mut (want !=0)  suite-with-patch rc=$suite passed=$passed failed=$failed" >> $LOG
  git -C $W checkout -- .
  git -C $W clean -fdq
done
git -C /repo worktree remove --force $W
echo DONE >> $LOG
