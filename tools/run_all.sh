#!/bin/bash
# usage: tools/run_all.sh quick|thorough [ids...]   — every check of the tier, one after the other; one summary line each
cd "$(dirname "$0")/.."
tier="${1:-quick}"; shift
ids="$@"; [ -z "$ids" ] && ids="C01 C02 C03 C04 C05 C06 C07 C08 C09 C10 C11 C12 C13 C14 C15 C16"
[ -x lean/.lake/build/bin/bptdriver ] || ./setup.sh > build-setup.log 2>&1
for p in $ids; do
  start=$(date +%s)
  ./check $p --tier $tier > run-$tier-$p.log 2>&1; rc=$?
  echo "$p $tier rc=$rc $(( $(date +%s) - start ))s $(grep -c '^VIOLATION' run-$tier-$p.log) violation line(s) | $(tail -1 run-$tier-$p.log | cut -c1-100)"
done
