#!/bin/bash
# usage: tools/ingest_seed_rust.sh <worktree-name e.g. C10b> <dest id e.g. C10-m3>
# takes the uncommitted change (rust/src) + rust/tests/seeded_demo.rs from /tmp/seed-<name>, re-confirms it in a fresh
# scratch worktree (demo passes on the clean tree; with the patch the pinned suite passes and the demo fails) and
# stores it under seeded/<dest>.
name="$1"; dest="$2"
src=/tmp/seed-$name; out=/verif/seeded/$dest
mkdir -p "$out"
git -C "$src" diff -- rust/src > "$out/patch.diff"
cp "$src/rust/tests/seeded_demo.rs" "$out/demo.rs"
W=/tmp/confirm-$dest
export CARGO_NET_OFFLINE=true CARGO_TARGET_DIR=/tmp/confirm-target
git -C /repo worktree remove --force $W 2>/dev/null
git -C /repo worktree add -q --detach $W HEAD || exit 1
cp "$out/demo.rs" $W/rust/tests/zz_demo.rs
(cd $W && cargo test --offline -p bplustree --test zz_demo > /tmp/confirm-clean.log 2>&1); clean=$?
git -C $W apply "$out/patch.diff" || { echo "$dest: PATCH DOES NOT APPLY"; exit 1; }
(cd $W && cargo test --offline -p bplustree --test zz_demo > /tmp/confirm-mut.log 2>&1); mut=$?
rm -f $W/rust/tests/zz_demo.rs
(cd $W && cargo test --workspace --no-fail-fast --offline > /tmp/confirm-suite.log 2>&1); suite=$?
passed=$(grep -E "^test result" /tmp/confirm-suite.log | awk '{s+=$4} END{print s}')
failed=$(grep -E "^test result" /tmp/confirm-suite.log | awk '{s+=$6} END{print s}')
echo "$dest: demo-on-clean rc=$clean (want 0)  demo-with-patch rc=$mut (want !=0)  suite-with-patch rc=$suite passed=$passed failed=$failed" | tee -a /verif/seeded/CONFIRM.log
grep -h "panicked" -A2 /tmp/confirm-mut.log | head -4
git -C /repo worktree remove --force $W
