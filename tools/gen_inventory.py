#!/usr/bin/env python3
"""Regenerates DESIGN.md §11.5 (per-property inventory of what is checked) from tools/props.py."""
import os, re, sys
ROOT = os.path.dirname(os.path.dirname(os.path.abspath(__file__)))
sys.path.insert(0, os.path.join(ROOT, "tools"))
import props as P
p = os.path.join(ROOT, "DESIGN.md")
s = open(p).read()
out = ["### 11.5 Per-property inventory (generated from `tools/props.py` by `tools/gen_inventory.py`)", "",
       "Every name below is a Lean declaration whose axioms are audited on every run (`#print axioms`), or a tie lemma that",
       "compares a regenerated item of `Generated/Source.lean` with the model; the suites are the correspondence runs.", ""]
for pid in sorted(P.PROPS):
    c = P.PROPS[pid]
    short = lambda n: n.replace("BPT.Props.", "").replace("BPT.", "")
    out.append("* **%s** — %s. Module `%s`." % (pid, c["title"], c["module"]))
    out.append("  Theorems (%d): %s." % (len(c["theorems"]), ", ".join("`%s`" % short(t) for t in c["theorems"])))
    out.append("  Ties (%d): %s." % (len(c.get("ties", [])), ", ".join("`%s`" % short(t) for t in c.get("ties", []))))
    nfn = len(P.ties_for(pid)) - len(c.get("ties", []))
    out.append("  Function-text ties (%d): one digest lemma per function the property's model transcribes (`TieRust.rustfn_*_eq` / `TieSrc.srcfn_*_eq`; the lists are `property_functions` in `tools/rustfn_snapshot.json` / `tools/srcfn_snapshot.json`)." % nfn)
    su = []
    for x in c["suites"]:
        t = "%s/%s (quick %s, thorough %s%s)" % (x["kind"], x["suite"], x["quick"].get("cases"), x["thorough"].get("cases"),
                                                 ", thorough also under Miri" if "miri" in x else "")
        su.append(t)
    out.append("  Suites: %s." % "; ".join(su))
    if c.get("trusted_extra"):
        out.append("  Stated limits: %s" % " / ".join(c["trusted_extra"]))
    out.append("")
block = "\n".join(out)
marker = "### 11.5 Per-property inventory"
if marker in s:
    i = s.index(marker)
    j = s.index("\n---------------------------------------------------------------------------", i)
    s = s[:i] + block + s[j:]
else:
    j = s.index("\n---------------------------------------------------------------------------\n\n## Appendix A")
    s = s[:j] + "\n" + block + s[j:]
open(p, "w").write(s)
print("inventory written")
