"""Harness kinds (how to build / generate / replay) and per-suite measurement of
what a run actually covered (counted from the op and output streams)."""
import fcntl
import hashlib
import os
import subprocess

ROOT = os.path.normpath(os.path.join(os.path.dirname(os.path.abspath(__file__)), ".."))
BUILD = os.path.join(ROOT, "build")
REPO = os.environ.get("VERIF_REPO", "/repo")
RUST_H = os.path.join(ROOT, "harness", "rust")
RUST_BIN = os.path.join(BUILD, "rust-target", "debug", "bpt-harness")
ENV = dict(os.environ, CARGO_NET_OFFLINE="true", PIP_NO_INDEX="1", GOPROXY="off", BPT_REPO=REPO)
# a generation run that does not finish in this many seconds is cut off (a changed implementation may loop for ever);
# ./check sets it per tier, what was written until then is still compared
GEN_TIMEOUT = int(os.environ.get("VERIF_GEN_TIMEOUT", "7200"))
if REPO != "/repo" or ROOT != "/verif":
    # a scratch copy of /verif and/or of the repository (seeded-change experiments run beside the real checks):
    # the harness crate names its path dependency and target directory literally, so build a rewritten copy
    import shutil
    _h = os.path.join(BUILD, "harness-rust-copy")
    os.makedirs(BUILD, exist_ok=True)
    shutil.copytree(RUST_H, _h, ignore=shutil.ignore_patterns("target", "Cargo.toml", "config.toml"), dirs_exist_ok=True)
    for _f, _subs in (("Cargo.toml", [('path = "/repo/rust"', 'path = "%s/rust"' % REPO)]),
                      (os.path.join(".cargo", "config.toml"), [('target-dir = "/verif/build/rust-target"', 'target-dir = "%s"' % os.path.join(BUILD, "rust-target"))])):
        _t = open(os.path.join(RUST_H, _f)).read()
        for _a, _b in _subs:
            _t = _t.replace(_a, _b)
        os.makedirs(os.path.dirname(os.path.join(_h, _f)), exist_ok=True)
        if not os.path.exists(os.path.join(_h, _f)) or open(os.path.join(_h, _f)).read() != _t:
            open(os.path.join(_h, _f), "w").write(_t)
    RUST_H = _h


def _limit():
    # a runaway implementation (e.g. iteration over a cyclic chain) must not exhaust the sandbox
    import resource
    resource.setrlimit(resource.RLIMIT_AS, (12 << 30, 12 << 30))


def _sh(cmd, cwd=None, timeout=3600, limited=False):
    try:
        p = subprocess.run(cmd, cwd=cwd, env=ENV, stdout=subprocess.PIPE, stderr=subprocess.STDOUT, timeout=timeout, text=True,
                           errors="replace", preexec_fn=_limit if limited else None)
        return p.returncode, p.stdout
    except subprocess.TimeoutExpired as e:
        return 124, "<timeout after %ss>" % timeout


class _Lock:
    def __init__(self, name):
        os.makedirs(BUILD, exist_ok=True)
        self.path = os.path.join(BUILD, ".lock-" + name)

    def __enter__(self):
        self.f = open(self.path, "w")
        fcntl.flock(self.f, fcntl.LOCK_EX)

    def __exit__(self, *a):
        fcntl.flock(self.f, fcntl.LOCK_UN)
        self.f.close()


# ---------------------------------------------------------------- rust kind

def rust_build():
    # harness/rust/Cargo.lock was seeded from /repo/Cargo.lock (same dependency versions, all in the offline registry)
    with _Lock("cargo"):
        rc, out = _sh(["cargo", "build", "--offline"], cwd=RUST_H)
    return rc == 0, out


def rust_gen(suite, seed, budget, outdir, corpus_lines):
    args = [RUST_BIN, "gen", suite, "--seed", str(seed), "--out", outdir]
    for k, v in budget.items():
        args += ["--" + k, str(v)]
    if corpus_lines:
        cp = os.path.join(outdir, "corpus.txt")
        with open(cp, "w") as f:
            f.write("\n".join(corpus_lines) + "\n")
        args += ["--corpus", cp]
    rc, out = _sh(args, timeout=GEN_TIMEOUT, limited=True)
    return {"ok": rc == 0, "log": "harness exit status %s\n%s" % (rc, out)}


MIRI_TARGET = os.path.join(BUILD, "miri-target")


def rust_miri(suite, seed, budget, outdir, tag):
    """The same harness, interpreted by Miri (nightly toolchain, offline): every unchecked access, every
    reference and every allocation of the real crate is checked by the interpreter while the generated
    operations run; at exit Miri reports memory that was never freed.  `procs` interpreters run in parallel,
    each on its own seed.  Returns (failure lines tagged `[tag]`, stats)."""
    import subprocess, time
    procs = int(budget.get("procs", 4)); cases = int(budget.get("cases", 2)); n = int(budget.get("len", 40))
    env = dict(ENV); env["MIRIFLAGS"] = "-Zmiri-disable-isolation"; env["CARGO_TARGET_DIR"] = MIRI_TARGET
    t0 = time.time()
    # build once (and set up the Miri sysroot on a fresh machine) before fanning out
    warm = os.path.join(outdir, "miri-warm"); os.makedirs(warm, exist_ok=True)
    with _Lock("cargo-miri"):
        p = subprocess.run(["cargo", "+nightly", "miri", "run", "--offline", "--", "gen", suite, "--seed", "1", "--out", warm, "--cases", "0", "--len", "1"],
                           cwd=RUST_H, env=env, stdout=subprocess.PIPE, stderr=subprocess.STDOUT, text=True, errors="replace", timeout=3600)
    if p.returncode != 0:
        return (["[%s] miri: the harness does not build / start under Miri: %s" % (tag, p.stdout[-300:].replace("\n", " | "))],
                {"ran": False, "log": p.stdout[-600:]})
    running = []
    for i in range(procs):
        od = os.path.join(outdir, "miri-%d" % i); os.makedirs(od, exist_ok=True)
        cmd = ["cargo", "+nightly", "miri", "run", "--offline", "--", "gen", suite, "--seed", str(seed + 7919 * (i + 1)), "--out", od,
               "--cases", str(cases), "--len", str(n)]
        running.append((od, subprocess.Popen(cmd, cwd=RUST_H, env=env, stdout=subprocess.PIPE, stderr=subprocess.STDOUT, text=True, errors="replace")))
    fails = []; lines = 0; ncases = 0; runs = []
    for od, pr in running:
        try:
            out, _ = pr.communicate(timeout=7200)
        except subprocess.TimeoutExpired:
            pr.kill(); out = "<timeout>"
        ops = []
        try:
            ops = open(os.path.join(od, "ops.txt")).read().splitlines()
        except OSError:
            pass
        lines += len(ops); ncases += sum(1 for l in ops if l.startswith("case "))
        ub = "Undefined Behavior" in out
        leak = "memory leaked" in out or "the evaluated program leaked memory" in out
        if pr.returncode != 0 or ub or leak:
            what = "undefined behaviour" if ub else ("memory leaked" if leak else "abnormal exit status %s" % pr.returncode)
            msg = " | ".join(l.strip() for l in out.splitlines() if l.strip().startswith(("error", "-->", "= note", "note:")))[:600]
            last = [l for l in ops if l.startswith("case ")]
            where = (" case=%s" % last[-1][5:].strip()) if (ub and last) else ""
            fails.append({"text": "[%s]%s miri: %s in %s (seed %d): %s" % (tag, where, what, suite, seed, msg), "ops": ops})
        try:
            for l in open(os.path.join(od, "oracle.txt")).read().splitlines():
                fails.append({"text": l, "ops": ops})
        except OSError:
            pass
        runs.append({"dir": od, "exit_status": pr.returncode, "lines": len(ops)})
    return fails, {"ran": True, "interpreters": procs, "cases": ncases, "lines": lines, "wall_s": round(time.time() - t0, 1), "runs": runs}


def rust_replay(ops_path, outdir):
    rc, out = _sh([RUST_BIN, "replay", ops_path, "--out", outdir], timeout=120, limited=True)
    return rc == 0


# ---------------------------------------------------------------- python kind (pure-Python map)

PY_H = os.path.join(ROOT, "harness", "py", "pyharness.py")
PY_ENV = dict(ENV, BPT_REPO=REPO, PYTHONDONTWRITEBYTECODE="1", PYTHONHASHSEED="0")


def _py(args, timeout):
    import sys
    try:
        p = subprocess.run([sys.executable, PY_H] + args, env=PY_ENV, stdout=subprocess.PIPE, stderr=subprocess.STDOUT, timeout=timeout,
                           text=True, errors="replace", preexec_fn=_limit)
        return p.returncode, p.stdout
    except subprocess.TimeoutExpired:
        return 124, "<timeout after %ss>" % timeout


def py_build():
    # nothing to build: the harness imports /repo/python/bplustree/bplus_tree.py directly on every run
    ok = os.path.exists(os.path.join(REPO, "python", "bplustree", "bplus_tree.py"))
    return ok, "" if ok else "python/bplustree/bplus_tree.py not found"


def py_gen(suite, seed, budget, outdir, corpus_lines):
    args = ["gen", suite, "--seed", str(seed), "--out", outdir]
    for k, v in budget.items():
        args += ["--" + k, str(v)]
    if corpus_lines:
        cp = os.path.join(outdir, "corpus.txt")
        with open(cp, "w") as f:
            f.write("\n".join(corpus_lines) + "\n")
        args += ["--corpus", cp]
    rc, out = _py(args, GEN_TIMEOUT)
    import shutil
    if os.path.exists(os.path.join(outdir, "stats.json")):
        shutil.copy(os.path.join(outdir, "stats.json"), os.path.join(outdir, "events.json"))
    return {"ok": rc == 0, "log": "harness exit status %s\n%s" % (rc, out)}


def py_replay(ops_path, outdir):
    rc, out = _py(["replay", ops_path, "--out", outdir], 300)
    return rc == 0


# ---------------------------------------------------------------- c kind (C extension bplustree_c)

C_H = os.path.join(ROOT, "harness", "py", "charness.py")


def _c(args, timeout, asan=False):
    import sys
    env = dict(PY_ENV)
    if asan:
        rc, lib = _sh(["gcc", "-print-file-name=libasan.so"])
        env["LD_PRELOAD"] = lib.strip()
        env["ASAN_OPTIONS"] = "detect_leaks=0:abort_on_error=0:halt_on_error=1"
    try:
        p = subprocess.run([sys.executable, C_H] + args, env=env, stdout=subprocess.PIPE, stderr=subprocess.STDOUT, timeout=timeout,
                           text=True, errors="replace", preexec_fn=None if asan else _limit)
        return p.returncode, p.stdout
    except subprocess.TimeoutExpired:
        return 124, "<timeout after %ss>" % timeout


def c_build():
    with _Lock("cext"):
        rc, out = _c(["build"], 600)
    return rc == 0, out


def _last_case(outdir):
    last = "?"
    try:
        for l in open(os.path.join(outdir, "ops.txt")):
            if l.startswith("case "):
                last = l.split()[1]
    except OSError:
        pass
    return last


def _c_post(outdir, rc, out, what):
    """abnormal termination of the driver process and sanitizer reports are C13 oracle failures"""
    msgs = []
    if "AddressSanitizer" in out:
        m = [l for l in out.split("\n") if "AddressSanitizer" in l or l.strip().startswith("#0") or l.strip().startswith("#1")]
        msgs.append("%s: AddressSanitizer report: %s" % (what, " | ".join(x.strip() for x in m[:4])))
    elif rc not in (0,):
        msgs.append("%s: driver process terminated abnormally (exit status %s): %s" % (what, rc, out.strip().split("\n")[-1][:200] if out.strip() else ""))
    if msgs:
        with open(os.path.join(outdir, "oracle.txt"), "a") as f:
            for m in msgs:
                f.write("[C13] case=%s %s\n" % (_last_case(outdir), m))
    return msgs


def c_gen(suite, seed, budget, outdir, corpus_lines):
    args = ["gen", suite, "--seed", str(seed), "--out", outdir]
    for k, v in budget.items():
        args += ["--" + k, str(v)]
    if corpus_lines:
        cp = os.path.join(outdir, "corpus.txt")
        with open(cp, "w") as f:
            f.write("\n".join(corpus_lines) + "\n")
        args += ["--corpus", cp]
    rc, out = _c(args, GEN_TIMEOUT)
    _c_post(outdir, rc, out, "plain build")
    # the same operation lines under AddressSanitizer
    adir = os.path.join(outdir, "asan")
    os.makedirs(adir, exist_ok=True)
    asan_info = {"ran": False}
    if os.path.exists(os.path.join(outdir, "ops.txt")):
        rc2, out2 = _c(["replay", os.path.join(outdir, "ops.txt"), "--variant", "asan", "--out", adir], GEN_TIMEOUT, asan=True)
        bad = _c_post(outdir, rc2, out2, "ASan build")
        same = False
        try:
            same = open(os.path.join(adir, "impl.txt")).read() == open(os.path.join(outdir, "impl.txt")).read()
        except OSError:
            pass
        asan_info = {"ran": True, "exit_status": rc2, "reports": len(bad), "same_answers_as_plain_build": same}
    import shutil, json
    if os.path.exists(os.path.join(outdir, "stats.json")):
        try:
            st = json.load(open(os.path.join(outdir, "stats.json")))
            st["asan"] = asan_info
            json.dump(st, open(os.path.join(outdir, "events.json"), "w"))
        except ValueError:
            pass
    # a crash is reported through oracle.txt with the ops written so far; the run counts as finished
    return {"ok": True, "log": "harness exit status %s\n%s" % (rc, out[-2000:])}


def c_replay(ops_path, outdir):
    rc, out = _c(["replay", ops_path, "--out", outdir], 300)
    _c_post(outdir, rc, out, "plain build")
    adir = os.path.join(outdir, "asan")
    os.makedirs(adir, exist_ok=True)
    rc2, out2 = _c(["replay", ops_path, "--variant", "asan", "--out", adir], 300, asan=True)
    _c_post(outdir, rc2, out2, "ASan build")
    return rc == 0


KINDS = {
    "rust": {"build": rust_build, "gen": rust_gen, "replay": rust_replay},
    "py": {"build": py_build, "gen": py_gen, "replay": py_replay},
    "c": {"build": c_build, "gen": c_gen, "replay": c_replay},
}

# ---------------------------------------------------------------- measurement


def _distinct(cases, ops, pred, impl):
    seen = set()
    nt = 0
    samples = []
    for c in cases:
        lines = [ops[i] for i in c["idx"]]
        outs = [impl[i] if i < len(impl) else "" for i in c["idx"]]
        h = hashlib.sha1("\n".join(lines).encode()).hexdigest()
        if h in seen:
            continue
        seen.add(h)
        if pred(lines, outs):
            nt += 1
            if len(samples) < 2:
                samples.append({"case": c["name"], "ops": lines[:40], "impl_out": outs[:40], "truncated_to": 40, "length": len(lines)})
    return len(seen), nt, samples


def measure_arena(ops, impl, cases):
    def nontrivial(lines, outs):
        released = set()
        reuse = False
        failed_release = False
        for l, o in zip(lines, outs):
            w = l.split()
            if len(w) >= 3 and w[1] in ("dealloc", "deallocd", "deallocn"):
                if o.startswith("some") or o == "true":
                    released.add(w[2])
                else:
                    failed_release = True
            if len(w) >= 2 and w[1] == "alloc" and o.startswith("id ") and o[3:] in released:
                reuse = True
                released.discard(o[3:])
        return reuse and failed_release
    d, nt, samples = _distinct(cases, ops, nontrivial, impl)
    hist = {}
    for l in ops:
        w = l.split()
        k = " ".join(w[:2]) if w and len(w[0]) == 1 else (w[0] if w else "")
        hist[k] = hist.get(k, 0) + 1
    return {"distinct_cases": d, "distinct_nontrivial": nt, "samples": samples, "op_histogram": hist,
            "panics": sum(1 for o in impl if o == "panic")}


def _hist(ops):
    hist = {}
    for l in ops:
        w = l.split()
        k = " ".join(w[:2]) if w and len(w[0]) == 1 else (w[0] if w else "")
        hist[k] = hist.get(k, 0) + 1
    return hist


def _events(outdir_hint=None):
    return {}


def measure_tree(kind):
    def nontrivial(lines, outs):
        saw_branch_root = any(o.startswith("root=B") for o in outs)
        removed = any(l.startswith("R remove") and o.startswith("some") for l, o in zip(lines, outs))
        if kind == "ops":
            return saw_branch_root and removed
        if kind == "iter":
            return saw_branch_root and any(l.startswith("R interleave") for l in lines)
        if kind == "range":
            nonempty = any(l.startswith("R range") and o not in ("[]", "") for l, o in zip(lines, outs))
            empty = any(l.startswith("R range") and o == "[]" for l, o in zip(lines, outs))
            return saw_branch_root and nonempty and empty
        if kind in ("damage", "helpers"):
            return saw_branch_root and any(l.startswith("X ") and not l.startswith("X toraw") and not l.startswith("X note") for l in lines)
        if kind == "deep":
            return sum(1 for l in lines if l.startswith("O insert")) >= 1000 and any(l.startswith("O range") for l in lines)
        if kind == "faults":
            return saw_branch_root and any(l.startswith("F arm-") for l in lines) and any(l.startswith("F items") or l.startswith("F keys") or l.startswith("F partial") or l.startswith("F range") for l in lines)
        if kind == "api":
            return any(o.startswith("err ") for o in outs) and any(o.startswith("ok") for o in outs)
        return True

    def measure(ops, impl, cases):
        d, nt, samples = _distinct(cases, ops, nontrivial, impl)
        caps = {}
        heights = 0
        for l in ops:
            if l.startswith("R new "):
                caps[l.split()[2]] = caps.get(l.split()[2], 0) + 1
        return {"distinct_cases": d, "distinct_nontrivial": nt, "samples": samples, "op_histogram": _hist(ops),
                "capacities": dict(sorted(caps.items(), key=lambda kv: int(kv[0]))[:40]),
                "panics": sum(1 for o in impl if o == "panic"), "ub": sum(1 for o in impl if o == "ub"),
                "dumps_compared": sum(1 for l in ops if l == "R dump")}
    return measure


def measure_py(kind):
    def nontrivial(lines, outs):
        grew = any(l == "P dump" and " h=0 " not in o and o.startswith("cap=") for l, o in zip(lines, outs))
        deleted = any(l.startswith("P del") and o == "ok" for l, o in zip(lines, outs))
        if kind == "range":
            q = [(l, o) for l, o in zip(lines, outs) if l.split()[1:2] and l.split()[1] in ("items", "keys", "values", "range") and len(l.split()) == 4 and l.split()[2:] != ["_", "_"]]
            return grew and any(o == "[]" for _, o in q) and any(o not in ("[]", "") for _, o in q)
        if kind == "deep":
            return any(l == "P leafcount" and o.isdigit() and int(o) >= 1000 for l, o in zip(lines, outs))
        return grew and deleted

    def measure(ops, impl, cases):
        d, nt, samples = _distinct(cases, ops, nontrivial, impl)
        caps = {}
        for l in ops:
            w = l.split()
            if len(w) >= 3 and w[0] == "P" and w[1] in ("new", "fromsorted"):
                caps[w[2]] = caps.get(w[2], 0) + 1
        return {"distinct_cases": d, "distinct_nontrivial": nt, "samples": samples, "op_histogram": _hist(ops),
                "capacities": dict(sorted(caps.items(), key=lambda kv: int(kv[0]))[:40]),
                "raises": sum(1 for o in impl if o == "raise"), "keyerrors": sum(1 for o in impl if o == "keyerror"),
                "dumps_compared": sum(1 for l in ops if l == "P dump")}
    return measure


def measure_c(kind):
    def nontrivial(lines, outs):
        grew = any(l == "C dump" and " h=0 " not in o and o.startswith("cap=") for l, o in zip(lines, outs))
        deleted = any(l.startswith("C del") and o == "ok" for l, o in zip(lines, outs))
        if kind == "caps":
            return any(o == "err capacity" for o in outs) and any(o == "ok" for o in outs)
        return grew and deleted

    def measure(ops, impl, cases):
        d, nt, samples = _distinct(cases, ops, nontrivial, impl)
        caps = {}
        for l in ops:
            w = l.split()
            if len(w) >= 3 and w[0] == "C" and w[1] == "new":
                caps[w[2]] = caps.get(w[2], 0) + 1
        return {"distinct_cases": d, "distinct_nontrivial": nt, "samples": samples, "op_histogram": _hist(ops),
                "capacities": dict(sorted(caps.items(), key=lambda kv: int(kv[0]))[:40]),
                "runtimeerrors": sum(1 for o in impl if o == "runtimeerror"), "keyerrors": sum(1 for o in impl if o == "keyerror"),
                "dumps_compared": sum(1 for l in ops if l == "C dump"), "refcount_lines_compared": sum(1 for l in ops if l == "C refs")}
    return measure


SUITES = {
    "c-ops": {"measure": measure_c("ops")},
    "c-exh": {"measure": measure_c("ops")},
    "c-caps": {"measure": measure_c("caps")},
    "py-ops": {"measure": measure_py("ops")},
    "py-range": {"measure": measure_py("range")},
    "py-deep": {"measure": measure_py("deep")},
    "py-exh": {"measure": measure_py("ops")},
    "py-exh4": {"measure": measure_py("ops")},
    "arena": {"measure": measure_arena},
    "tree-ops": {"measure": measure_tree("ops")},
    "tree-iter": {"measure": measure_tree("iter")},
    "tree-range": {"measure": measure_tree("range")},
    "tree-api": {"measure": measure_tree("api")},
    "tree-damage": {"measure": measure_tree("damage")},
    "tree-helpers": {"measure": measure_tree("helpers")},
    "tree-faults": {"measure": measure_tree("faults")},
    "tree-exh": {"measure": measure_tree("ops")},
    "tree-deep": {"measure": measure_tree("deep")},
}
