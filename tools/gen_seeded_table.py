#!/usr/bin/env python3
"""Regenerates the table of DESIGN.md §11.4 from seeded/*/meta.json."""
import json, glob, re, os
ROOT = os.path.dirname(os.path.dirname(os.path.abspath(__file__)))
p = os.path.join(ROOT, "DESIGN.md")
s = open(p).read()
rows = []
for d in sorted(glob.glob(os.path.join(ROOT, "seeded", "C*-m*"))):
    m = json.load(open(d + "/meta.json"))
    need = re.sub(r"\s+", " ", m["needs_to_manifest"])
    if len(need) > 170:
        need = need[:170] + "…"
    rows.append("| %s | %s | %s | %s |" % (m["id"], m["property"], need.replace("|", "/"), re.sub(r"\s+", " ", m["detected_by"]).replace("|", "/")))
start = s.index("| id | prop | needs, to manifest | caught by |")
end = s.index("\n\n", start)
s = s[:start] + "| id | prop | needs, to manifest | caught by |\n|----|------|--------------------|-----------|\n" + "\n".join(rows) + s[end:]
s = re.sub(r"^\d+ changes written by independent sub-agents", "%d changes written by independent sub-agents" % len(rows), s, flags=re.M)
s = re.sub(r"All \d+ are detected;", "All %d are detected;" % len(rows), s)
open(p, "w").write(s)
print(len(rows), "rows")
