#!/bin/sh
# usage: tools/ingest_seed.sh <worktree-name e.g. C13c> <dest id e.g. C13-m3> <py|c>
# takes the uncommitted change + demo.py from /tmp/seed-<name>, re-confirms it in a fresh scratch
# worktree (demo passes on the clean tree, fails with the patch) and stores it under seeded/<dest>.
set -e
name="$1"; dest="$2"; kind="$3"
src=/tmp/seed-$name; out=/verif/seeded/$dest
mkdir -p "$out"
git -C "$src" diff > "$out/patch.diff"
cp "$src/demo.py" "$out/demo.py"
files=$(git -C "$src" diff --name-only | tr '\n' ' ')
scr=/tmp/confirm-$dest
git -C /repo worktree add -q --detach "$scr" HEAD
cp "$out/demo.py" "$scr/demo.py"
if [ "$kind" = py ]; then
  (cd "$scr" && python3 demo.py > /tmp/confirm-clean.log 2>&1; echo $? > /tmp/rc1) || true
  git -C "$scr" apply "$out/patch.diff"
  (cd "$scr" && python3 demo.py > /tmp/confirm-mut.log 2>&1; echo $? > /tmp/rc2) || true
  line="$dest: demo-on-clean rc=$(cat /tmp/rc1) (want 0)  demo-with-patch rc=$(cat /tmp/rc2) (want !=0)  files: $files"
else
  inc=$(python3 -c "import sysconfig;print(sysconfig.get_paths()['include'])")
  asan=$(gcc -print-file-name=libasan.so)
  bld() { mkdir -p "$2"; gcc -shared -fPIC -O1 -g -fsanitize=address -fno-omit-frame-pointer -I"$inc" "$1"/python/bplustree_c_src/*.c -o "$2/bplustree_c.so"; }
  bld "$scr" "$scr/b-clean"
  (cd "$scr" && LD_PRELOAD=$asan ASAN_OPTIONS=detect_leaks=0 python3 demo.py "$scr/b-clean" > /tmp/confirm-clean.log 2>&1; echo $? > /tmp/rc1) || true
  git -C "$scr" apply "$out/patch.diff"
  bld "$scr" "$scr/b-mut"
  (cd "$scr" && LD_PRELOAD=$asan ASAN_OPTIONS=detect_leaks=0 python3 demo.py "$scr/b-mut" > /tmp/confirm-mut.log 2>&1; echo $? > /tmp/rc2) || true
  line="$dest: demo-on-clean-build rc=$(cat /tmp/rc1) (want 0)  demo-on-patched-build rc=$(cat /tmp/rc2) (want !=0)  files: $files (both built with AddressSanitizer)"
fi
echo "$line" | tee -a /verif/seeded/CONFIRM.log
tail -3 /tmp/confirm-mut.log
git -C /repo worktree remove --force "$scr"
