"""Tiny expression translator: Rust / Python / C integer and boolean
expressions -> Lean 4 terms over Nat.  Used by extract.py for the policy
expressions (thresholds, split points).  Anything it cannot parse raises
TranslateError, which extract.py turns into a broken obligation."""
import re

class TranslateError(Exception):
    pass

TOKEN = re.compile(r"\s*(?:(\d+)|([A-Za-z_][A-Za-z_0-9]*)|(//|<=|>=|==|!=|&&|\|\||->|[-+*/<>()!.,\[\]]))")

def tokenize(s):
    pos = 0
    out = []
    s = s.strip()
    while pos < len(s):
        m = TOKEN.match(s, pos)
        if not m:
            raise TranslateError("cannot tokenize at %r" % s[pos:pos + 20])
        pos = m.end()
        if m.group(1):
            out.append(("num", m.group(1)))
        elif m.group(2):
            out.append(("id", m.group(2)))
        else:
            out.append(("op", m.group(3)))
    return out

BINOPS = {
    "||": (1, "∨"), "or": (1, "∨"),
    "&&": (2, "∧"), "and": (2, "∧"),
    "==": (3, "="), "!=": (3, "≠"), "<": (3, "<"), "<=": (3, "≤"), ">": (3, ">"), ">=": (3, "≥"),
    "+": (4, "+"), "-": (4, "-"),
    "*": (5, "*"), "/": (5, "/"), "//": (5, "/"),
}

class Parser:
    """env: dict mapping a dotted path / call (e.g. 'self.capacity',
    'self.keys.len()', 'len(self.keys)', 'node->num_keys') to a Lean term."""
    def __init__(self, toks, env):
        self.t = toks
        self.i = 0
        self.env = env

    def peek(self):
        return self.t[self.i] if self.i < len(self.t) else (None, None)

    def eat(self, kind=None, val=None):
        k, v = self.peek()
        if k is None or (kind and k != kind) or (val and v != val):
            raise TranslateError("expected %s %s, got %s %s" % (kind, val, k, v))
        self.i += 1
        return v

    def parse(self):
        e = self.expr(0)
        if self.i != len(self.t):
            raise TranslateError("trailing tokens %r" % (self.t[self.i:],))
        return e

    def expr(self, minprec):
        lhs = self.unary()
        while True:
            k, v = self.peek()
            if (k == "op" or k == "id") and v in BINOPS and BINOPS[v][0] >= minprec:
                prec, lean = BINOPS[v]
                self.i += 1
                rhs = self.expr(prec + 1)
                lhs = "(%s %s %s)" % (lhs, lean, rhs)
            else:
                return lhs

    def unary(self):
        k, v = self.peek()
        if (k == "op" and v == "!") or (k == "id" and v == "not"):
            self.i += 1
            return "(¬ %s)" % self.unary()
        return self.postfix()

    def args(self):
        self.eat("op", "(")
        a = []
        if self.peek() != ("op", ")"):
            a.append(self.expr(0))
            while self.peek() == ("op", ","):
                self.i += 1
                a.append(self.expr(0))
        self.eat("op", ")")
        return a

    def postfix(self):
        k, v = self.peek()
        if k == "num":
            self.i += 1
            return v
        if k == "op" and v == "(":
            self.i += 1
            e = self.expr(0)
            self.eat("op", ")")
            cur, path = e, None
        elif k == "id":
            self.i += 1
            path = v
            cur = None
            # function call like len(x)
            if self.peek() == ("op", "("):
                save = self.i
                # textual form for env lookup
                depth = 0
                j = self.i
                while j < len(self.t):
                    if self.t[j] == ("op", "("):
                        depth += 1
                    if self.t[j] == ("op", ")"):
                        depth -= 1
                        if depth == 0:
                            break
                    j += 1
                text = path + "".join(x[1] for x in self.t[self.i:j + 1])
                if text in self.env:
                    self.i = j + 1
                    cur, path = self.env[text], None
                else:
                    self.i = save
                    a = self.args()
                    if path in ("max", "min") and len(a) == 2:
                        cur, path = "(%s %s %s)" % (path, a[0], a[1]), None
                    else:
                        raise TranslateError("unknown function %s" % text)
        else:
            raise TranslateError("unexpected token %s %s" % (k, v))
        # dotted / arrow continuation
        while True:
            k, v = self.peek()
            if k == "op" and v in (".", "->"):
                self.i += 1
                name = self.eat("id")
                if self.peek() == ("op", "("):
                    a = self.args()
                    if path is not None:
                        full = "%s.%s()" % (path, name) if not a else None
                        if full and full in self.env:
                            cur, path = self.env[full], None
                            continue
                        base = self.resolve(path)
                    else:
                        base = cur
                    if name == "div_ceil" and len(a) == 1:
                        cur = "((%s + %s - 1) / %s)" % (base, a[0], a[0])
                    elif name in ("max", "min") and len(a) == 1:
                        cur = "(%s %s %s)" % (name, base, a[0])
                    elif name == "len" and not a and path is not None and (path + ".len()") in self.env:
                        cur = self.env[path + ".len()"]
                    else:
                        raise TranslateError("unknown method .%s on %s" % (name, path or cur))
                    path = None
                else:
                    if path is None:
                        raise TranslateError("field access on expression")
                    path = path + ("." if v == "." else "->") + name
            else:
                break
        if path is not None:
            return self.resolve(path)
        return cur

    def resolve(self, path):
        if path in self.env:
            return self.env[path]
        raise TranslateError("unknown name %s" % path)

def translate(expr, env):
    expr = expr.strip().rstrip(";")
    # Rust `as usize` casts are identity on the model's Nat
    expr = re.sub(r"\s+as\s+usize", "", expr)
    return Parser(tokenize(expr), env).parse()

if __name__ == "__main__":
    env = {"self.capacity": "cap", "self.keys.len()": "n", "self.min_keys()": "(minKeys cap)",
           "total_keys": "n", "min_keys": "(cap / 2)", "mid": "m", "len(self.keys)": "n"}
    for e in ["self.capacity / 2", "self.keys.len() >= self.capacity", "self.keys.len() < self.min_keys()",
              "total_keys.div_ceil(2)", "mid.max(min_keys).min(total_keys - min_keys)", "len(self.keys) // 2",
              "len(self.keys) > (self.capacity - 1) // 2"]:
        print(e, "=>", translate(e, env))
