"""C part of the translator (python/bplustree_c_src): constants, header field widths, the capacity
guards of BPlusTree_init, split points and fullness tests, the per-function inventory of
Py_INCREF / Py_DECREF / Py_XDECREF / Py_CLEAR sites (in source order), the modification-stamp
increments, the first test of the iterator, and how instances are allocated and freed."""
import re

from exprtrans import translate, TranslateError


def c_fn(src, name):
    m = re.search(r"^[A-Za-z_][\w\s\*]*?\b" + re.escape(name) + r"\s*\([^;{]*\)\s*\{", src, flags=re.M)
    if not m:
        return None
    b = src.index("{", m.start())
    depth = 0
    j = b
    while j < len(src):
        if src[j] == "{":
            depth += 1
        elif src[j] == "}":
            depth -= 1
            if depth == 0:
                return src[b + 1:j]
        j += 1
    return None


def c_part(g, read, strip_comments):
    try:
        hdr = strip_comments(read("python/bplustree_c_src/bplustree.h"), "c")
        node = strip_comments(read("python/bplustree_c_src/node_ops.c"), "c")
        tree = strip_comments(read("python/bplustree_c_src/tree_ops.c"), "c")
        mod = strip_comments(read("python/bplustree_c_src/bplustree_module.c"), "c")
    except OSError as ex:
        g.missing("c_MIN_CAPACITY", "cannot read the C sources (%s)" % ex)
        return
    for name in ("MIN_CAPACITY", "DEFAULT_CAPACITY"):
        m = re.search(r"#define\s+" + name + r"\s+(\d+)", hdr)
        if m:
            g.const("c_" + name, m.group(1), "C " + name)
        else:
            g.missing("c_" + name, name + " not found in bplustree.h")
    widths = {}
    for m in re.finditer(r"\b(uint8_t|uint16_t|uint32_t|uint64_t|size_t|int)\s+(num_keys|capacity)\s*;", hdr):
        widths.setdefault(m.group(2), []).append(m.group(1))
    bits = {"uint8_t": 8, "uint16_t": 16, "uint32_t": 32, "uint64_t": 64, "size_t": 64, "int": 31}
    for f in ("num_keys", "capacity"):
        ws = sorted(set(bits.get(t, 0) for t in widths.get(f, [])))
        g.const("c_%s_bits" % f, ws[0] if len(ws) == 1 else 0, "width of every `%s` field in bplustree.h : %s" % (f, widths.get(f)))

    # capacity guards of BPlusTree_init
    body = c_fn(mod, "BPlusTree_init") or ""
    guards = re.findall(r"if\s*\(\s*(capacity\s*[<>]=?\s*[A-Z_0-9]+)\s*\)\s*\{[^}]*?PyErr_Format\(PyExc_ValueError", body, flags=re.S)
    env = {"capacity": "capacity", "MIN_CAPACITY": "c_MIN_CAPACITY", "UINT16_MAX": "65535", "UINT32_MAX": "4294967295", "INT_MAX": "2147483647"}
    if guards:
        g.fn_bool("c_ctor_rejects", "(capacity : Nat)", " || ".join("(%s)" % x for x in guards), env, "BPlusTree_init raises ValueError")
    else:
        g.missing("c_ctor_rejects", "capacity guards of BPlusTree_init not found")

    def emit_str(name, text, comment):
        g.lines.append('/-- %s -/\ndef %s : String := "%s"' % (comment.replace("-/", "- /"), name, text.replace("\\", "\\\\").replace('"', "'")))

    def emit_bool(name, val, comment):
        g.lines.append("/-- %s -/\ndef %s : Bool := %s" % (comment.replace("-/", "- /"), name, "true" if val else "false"))

    # split points and fullness tests
    for fn, src, nm in (("node_insert_leaf", node, "leaf"), ("node_insert_branch", tree, "branch")):
        b = c_fn(src, fn) or ""
        m = re.search(r"int\s+mid\s*=\s*([^;]+);", b)
        if m:
            g.fn_nat("c_%s_split_mid" % nm, "(cap : Nat)", m.group(1).strip(), {"node->capacity": "cap"}, "%s split point" % fn)
        else:
            g.missing("c_%s_split_mid" % nm, "`int mid = ...` not found in %s" % fn)
        m = re.search(r"if\s*\(\s*(node->num_keys\s*[<>=]+\s*node->capacity)\s*\)", b)
        if m:
            g.fn_bool("c_%s_is_full" % nm, "(cap n : Nat)", m.group(1), {"node->capacity": "cap", "node->num_keys": "n"}, "%s: split needed" % fn)
        else:
            g.missing("c_%s_is_full" % nm, "fullness test not found in %s" % fn)
        counts = re.findall(r"\(\*new_node\)->num_keys\s*=\s*([^;]+);", b) + re.findall(r"int\s+total_items\s*=\s*([^;]+);", b)
        emit_str("c_%s_split_counts" % nm, " ; ".join(re.sub(r"\s+", " ", c.strip()) for c in counts), "%s: sizes of the new right node" % fn)

    # reference-count sites per function, in source order
    sites = []
    for fn, src in (("node_insert_leaf", node), ("node_insert_branch", tree), ("node_delete", node), ("node_clear_slot", node),
                    ("node_get", node), ("node_destroy", node), ("tree_insert", tree), ("tree_insert_recursive", tree),
                    ("BPlusTree_contains", mod), ("BPlusTreeIterator_next", mod), ("node_gc_op", mod), ("BPlusTree_dealloc", mod)):
        b = c_fn(src, fn)
        if b is None:
            g.problems.append("c_refcount_sites: function %s not found" % fn)
            sites.append("%s: <missing>" % fn)
            continue
        found = re.findall(r"\b(Py_INCREF|Py_DECREF|Py_XDECREF|Py_XINCREF|Py_CLEAR|Py_NewRef|Py_SETREF)\s*\(([^;]*?)\)\s*;", b)
        sites.append("%s: %s" % (fn, ", ".join("%s(%s)" % (a, re.sub(r"\s+", "", x)) for a, x in found) or "-"))
    g.str_list("c_refcount_sites", sites, "every reference-count macro call per C function, in source order")

    # modification stamp
    stamps = []
    for fn, src in (("tree_insert", tree), ("tree_delete", tree), ("BPlusTree_delitem", mod), ("BPlusTree_setitem", mod)):
        b = c_fn(src, fn) or ""
        stamps.append("%s: %d" % (fn, len(re.findall(r"modification_count\s*\+\+", b))))
    g.str_list("c_stamp_increments", stamps, "`modification_count++` occurrences per function")
    b = c_fn(mod, "BPlusTreeIterator_next") or ""
    first_if = re.search(r"if\s*\(([^{]*?)\)\s*\{", b, flags=re.S)
    emit_str("c_iter_first_test", re.sub(r"\s+", " ", first_if.group(1).strip()) if first_if else "?", "BPlusTreeIterator_next: the first test")
    raises = re.search(r"PyErr_SetString\(\s*(\w+)", b)
    emit_str("c_iter_first_raises", raises.group(1) if raises else "?", "BPlusTreeIterator_next: what the first test raises")
    emit_str("c_iter_next_src", re.sub(r"\s+", " ", b).strip() if b else "?", "BPlusTreeIterator_next: the whole body, comments stripped, whitespace normalised (the model's `iterNext` transcribes it)")
    for nm in ("node_find_position", "fast_compare_lt", "fast_compare_eq"):
        bb = c_fn(node, nm)
        emit_str("c_src_" + nm, re.sub(r"\s+", " ", bb).strip() if bb else "?", "%s (node_ops.c): the whole body, comments stripped, whitespace normalised" % nm)
    for nm in ("BPlusTree_iter", "BPlusTree_keys", "BPlusTree_items", "BPlusTreeIterator_dealloc"):
        bb = c_fn(mod, nm)
        emit_str("c_src_" + nm, re.sub(r"\s+", " ", bb).strip() if bb else "?", "%s: the whole body, comments stripped, whitespace normalised" % nm)
    # routing: lower bound then step right on equal
    b = c_fn(tree, "tree_find_leaf") or ""
    emit_bool("c_route_steps_right_on_equal", re.search(r"if\s*\(\s*eq\s*\)\s*\{\s*pos\+\+;", b) is not None, "tree_find_leaf advances past an equal separator")
    b = c_fn(tree, "tree_insert_recursive") or ""
    emit_bool("c_insert_route_steps_right_on_equal", re.search(r"if\s*\(\s*eq\s*\)\s*\{\s*child_pos\+\+;", b) is not None, "tree_insert_recursive advances past an equal separator")
    # D10: instance allocation
    b = c_fn(mod, "BPlusTree_new") or ""
    d = c_fn(mod, "BPlusTree_dealloc") or ""
    emit_bool("c_alloc_via_type_slots", ("tp_alloc" in b) and ("tp_free" in d) and ("PyObject_GC_New" not in b) and ("PyObject_GC_Del" not in d),
              "D10: instances are allocated with type->tp_alloc and freed with Py_TYPE(self)->tp_free")
    emit_bool("c_type_is_basetype", "Py_TPFLAGS_BASETYPE" in mod, "the type can be subclassed")
