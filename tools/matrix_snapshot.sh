#!/bin/bash
# Runs seeded changes against a SNAPSHOT of /verif and a COPY of the repository, so that /repo and /verif stay
# free for other work:   vp run --with-repo --timeout 3h -- tools/matrix_snapshot.sh [ids...]
# For each seeded/<id>: apply patch to the copy, run the quick check of its property (+ extra props after a colon,
# e.g. C10-m3:C16), restore the copy.  Output: one line per (id, property).
cd "$(dirname "$0")/.."
export VERIF_REPO="${VP_RUN_REPO:?needs --with-repo}"
export CARGO_NET_OFFLINE=true
python3 tools/extract.py > /dev/null
(cd lean && lake build BPT bptdriver > ../build-lean.log 2>&1) || { echo "lean build failed"; tail -5 build-lean.log; exit 1; }
args="$@"; [ -z "$args" ] && args=$(ls seeded | grep -- '-m')
for a in $args; do
  id=${a%%:*}; extra=""; [ "$a" != "$id" ] && extra=$(echo "${a#*:}" | tr ',' ' ')
  prop=$(jq -r .property seeded/$id/meta.json)
  git -C "$VERIF_REPO" apply "$PWD/seeded/$id/patch.diff" || { echo "$id: patch does not apply"; continue; }
  for p in $prop $extra; do
    ./check $p --tier quick > build/seeded-$id-$p.log 2>&1; rc=$?
    echo "$id $p rc=$rc $(grep -c '^VIOLATION' build/seeded-$id-$p.log) violation line(s): $(grep '^VIOLATION' build/seeded-$id-$p.log | head -2 | sed 's/replay=[^ ]*//' | tr '\n' ' ') | $(grep 'search for a failing' build/seeded-$id-$p.log | cut -c9-)"
  done
  git -C "$VERIF_REPO" checkout -- . ; git -C "$VERIF_REPO" clean -fdq
done
