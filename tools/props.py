"""Per-property configuration of ./check: which Lean module holds the property
theorems, which theorems and tie lemmas are the obligations, which
correspondence / oracle suites run at which budget."""

ALLOWED_AXIOMS = {"propext", "Classical.choice", "Quot.sound"}

TRUSTED_BASE = [
    "Lean 4.33 kernel (thorough tier re-checks the property module with leanchecker)",
    "axioms allowed in property theorems: propext, Classical.choice, Quot.sound (audited with #print axioms on every run); no native_decide, bv_decide, sorry, admit or user axioms",
    "the hand-written Lean models are models of the code: tied to /repo by tools/extract.py (constants, thresholds, guards, unsafe/ownership inventories regenerated and proved equal in BPT/Generated/Tie.lean) and by the correspondence harness (same operation lines executed by the real code and by the compiled model, outputs and structural dumps diffed)",
    "tools/extract.py, tools/exprtrans.py, the harnesses and ./check themselves",
    "Vec / slice / mem::take / binary_search, Python list / bisect, CPython refcount macros behave as documented; key ordering is a lawful total order",
]

PY_TIES = [
    "BPT.TiePy.py_min_capacity", "BPT.TiePy.py_ctor_rejects_eq",
    "BPT.TiePy.py_leaf_is_full_eq", "BPT.TiePy.py_branch_is_full_eq", "BPT.TiePy.py_leaf_is_underfull_eq", "BPT.TiePy.py_branch_is_underfull_eq",
    "BPT.TiePy.py_leaf_can_donate_eq", "BPT.TiePy.py_branch_can_donate_eq", "BPT.TiePy.py_leaf_split_mid_eq", "BPT.TiePy.py_branch_split_mid_eq",
    "BPT.TiePy.py_get_checks_presence_eq", "BPT.TiePy.py_empty_shortcut_leaf_only_eq", "BPT.TiePy.py_len_iterative_eq",
] + ["BPT.TiePy.%s_eq" % n for n in (
    "py_leaf_split_shape py_leaf_split_side py_leaf_split_ret py_branch_split_shape py_branch_insert_shape py_leaf_find_position py_branch_find_child "
    "py_insert_into_leaf_tests py_delete_tests py_underflow_tests py_underflow_calls py_merge_guards py_merge_totals py_merge_side_tests "
    "py_redistribute_from_left_sep py_redistribute_from_right_sep py_leafnode_borrow_from_left py_leafnode_borrow_from_right py_leafnode_merge_with_right "
    "py_branchnode_borrow_from_left py_branchnode_borrow_from_right py_branchnode_merge_with_right py_get_return py_items_tests py_items_for "
    "py_find_position_in_leaf_tests py_sorted_fast_test py_sorted_fast_body py_setitem_shape py_api_pop py_api_popitem py_api_setdefault py_api_copy "
    "py_api_clear py_api_getitem py_api_contains py_api_delitem py_api_bool").split()]

C_TIES = ["BPT.TieC." + n for n in (
    "c_min_capacity c_default_capacity c_header_bits c_ctor_rejects_eq c_leaf_split_mid_eq c_branch_split_mid_eq c_leaf_is_full_eq c_branch_is_full_eq "
    "c_leaf_split_counts_eq c_branch_split_counts_eq c_refcount_sites_eq c_stamp_increments_eq c_iter_fail_fast_eq c_routing_eq c_alloc_via_type_slots_eq "
    "c_iter_next_src_eq c_src_BPlusTree_iter_eq c_src_BPlusTree_keys_eq c_src_BPlusTree_items_eq c_src_BPlusTreeIterator_dealloc_eq "
    "c_src_node_find_position_eq c_src_fast_compare_lt_eq c_src_fast_compare_eq_eq").split()]

# suites: name -> dict(kind, args per tier)
#   kind "rust": bpt-harness gen <suite> ...
PROPS = {
    "C16": {
        "title": "CompactArena handles stay valid and unique until they are released",
        "module": "BPT.Props.C16",
        "theorems": [
            "BPT.Props.C16.step_refines",
            "BPT.Props.C16.reachable_inv",
            "BPT.Props.C16.reachable_from_new",
            "BPT.Props.C16.run_refines",
            "BPT.Props.C16.history_from_new",
            "BPT.Props.C16.run_outputs_length",
            "BPT.Props.C16.live_handle_stays",
            "BPT.Props.C16.no_reissue_while_live",
            "BPT.Props.C16.step_ok",
            "BPT.Props.C16.allocate_fresh",
            "BPT.Props.C16.get_other_none",
            "BPT.Props.C16.release_once",
            "BPT.Props.C16.release_interrupted_by_default_panic",
            "BPT.Props.C16.counters_exact",
            "BPT.Props.C16.clear_invalidates_all",
            "BPT.Props.C16.compact_keeps_live",
            "BPT.Props.C16.compact_handles_dense",
            "BPT.Props.C16.allocate_reuses",
            "BPT.Props.C16.allocate_full_refused",
            "BPT.Props.C16.Legacy.allocate_returns_null",
        ],
        "ties": [
            "BPT.Tie.rust_null_node_arena",
            "BPT.Tie.rust_nodeid_bits",
            "BPT.Tie.rust_arena_alloc_limit_eq",
        ],
        "suites": [
            {"kind": "rust", "suite": "arena",
             "quick": {"cases": 1500, "len": 300}, "thorough": {"cases": 10000, "len": 300},
             "miri": {"thorough": {"procs": 4, "cases": 4, "len": 80}}},
        ],
        "nontrivial": "a case is non-trivial when it contains at least one slot reuse (an `alloc` answered with a previously released id) and one failed release; distinct = distinct op-line sequences",
    },
    "C01": {
        "title": "Rust map: every call history agrees with a reference ordered map",
        "module": "BPT.Props.C01",
        "tags": ["C01"],
        "theorems": [
            "BPT.Props.C01.step_refines",
            "BPT.Props.C01.run_refines",
            "BPT.Props.C01.refines_btreemap",
            "BPT.Props.C01.lookup_erase_self",
            "BPT.Props.C01.length_insert",
            "BPT.Props.C01.length_erase",
            "BPT.Props.C01.reachable_inv",
            "BPT.Props.C01.clear_is_new", "BPT.Props.C01.history_after_clear",
            "BPT.Props.C01.abs_sorted",
            "BPT.Props.C01.insert_keeps_first_key_object",
            "BPT.Props.C01.insert_absent",
            "BPT.Props.C01.lookup_insert_ne",
            "BPT.Props.C01.lookup_erase_ne",
            "BPT.Props.C01.lookup_adjust_ne",
            "BPT.Rust.insertRec_spec",
            "BPT.Rust.removeRec_spec",
            "BPT.Rust.insert_spec",
            "BPT.Rust.remove_spec",
            "BPT.Rust.get_spec",
            "BPT.Rust.len_spec",
            "BPT.Rust.getMutWrite_spec",
            "BPT.Rust.new_spec",
        ],
        "ties": [
            "BPT.Tie.rust_min_capacity",
            "BPT.Tie.rust_leaf_min_keys_eq", "BPT.Tie.rust_branch_min_keys_eq",
            "BPT.Tie.rust_leaf_is_full_eq", "BPT.Tie.rust_branch_is_full_eq",
            "BPT.Tie.rust_leaf_is_underfull_eq", "BPT.Tie.rust_branch_is_underfull_eq",
            "BPT.Tie.rust_leaf_can_donate_eq", "BPT.Tie.rust_branch_can_donate_eq",
            "BPT.Tie.rust_leaf_split_mid_node_eq", "BPT.Tie.rust_leaf_split_mid_insert_eq",
            "BPT.Tie.rust_leaf_insert_goes_left_eq", "BPT.Tie.rust_branch_split_mid_eq",
            "BPT.Tie.rust_rebalance_tests",
        ],
        "suites": [
            {"kind": "rust", "suite": "tree-deep", "quick": {"cases": 1, "len": 100000}, "thorough": {"cases": 4, "len": 750000}},
            {"kind": "rust", "suite": "tree-exh", "quick": {"cases": 65536, "len": 4}, "thorough": {"cases": 131072, "len": 5}},
            {"kind": "rust", "suite": "tree-ops",
             "quick": {"cases": 500, "len": 300}, "thorough": {"cases": 3000, "len": 400}},
        ],
        "nontrivial": "a case is non-trivial when the tree reached a branch root (at least one leaf split) and at least one removal returned a value; distinct = distinct op-line sequences; structural events (splits, merges, root growth, multi-level collapse) are counted by the harness under `structural_events`",
    },
    "C02": {
        "title": "Rust iteration yields every entry exactly once in ascending key order",
        "module": "BPT.Props.C02",
        "tags": ["C02"],
        "theorems": [
            "BPT.Props.C02.demo_state", "BPT.Props.C02.step_sinv", "BPT.Props.C02.reachable_sinv", "BPT.Props.C02.new_sinv",
            "BPT.Props.C02.items_eq_abs", "BPT.Props.C02.items_strictly_ascending",
            "BPT.Props.C02.keys_eq", "BPT.Props.C02.values_eq", "BPT.Props.C02.first_eq", "BPT.Props.C02.first_last_extremes", "BPT.Props.C02.last_eq",
            "BPT.Props.C02.items_pair_current", "BPT.Props.C02.exhausted_stays_none", "BPT.Props.C02.none_means_exhausted",
            "BPT.Props.C02.iterators_independent", "BPT.Props.C02.items_fast_eq_abs",
            "BPT.Rust.fastNext_pos", "BPT.Rust.fastDrain_pos", "BPT.Rust.view_itemsFast",
            "BPT.Rust.itemNext_pos", "BPT.Rust.drain_pos", "BPT.Rust.view_items", "BPT.Rust.view_chain", "BPT.Rust.view_embeds",
        ],
        "ties": ["BPT.Tie.no_interior_mutability", "BPT.Tie.rust_null_node"],
        "suites": [
            {"kind": "rust", "suite": "tree-deep", "quick": {"cases": 2, "len": 720000}, "thorough": {"cases": 4, "len": 750000}},
            {"kind": "rust", "suite": "tree-exh", "quick": {"cases": 8192, "len": 3}, "thorough": {"cases": 65536, "len": 4}},
            {"kind": "rust", "suite": "tree-iter",
             "quick": {"cases": 600, "len": 150}, "thorough": {"cases": 2000, "len": 200}},
        ],
        "nontrivial": "a case is non-trivial when the tree reached a branch root and two interleaved iterators were driven by a generated schedule; distinct = distinct op-line sequences",
    },
    "C04": {
        "title": "Rust tree stays a valid, balanced B+ tree after every mutation",
        "module": "BPT.Props.C04",
        "tags": ["C04"],
        "theorems": [
            "BPT.Props.C04.reachable_valid", "BPT.Props.C04.all_leaves_same_depth", "BPT.Props.C04.root_branch_two_children",
            "BPT.Props.C04.node_clauses", "BPT.Props.C04.chain_is_leaves", "BPT.Props.C04.min_entries", "BPT.Props.C04.height_log",
            "BPT.Props.C04.validators_accept", "BPT.Rust.checkNode_complete", "BPT.Rust.view_checkInvariants", "BPT.Rust.view_checkDetailed",
            "BPT.Rust.insert_sinv", "BPT.Rust.remove_sinv", "BPT.Rust.getMutWrite_sinv", "BPT.Rust.sinv_fresh",
            "BPT.Rust.insertRec_spec", "BPT.Rust.insertRec_sized", "BPT.Rust.removeRec_spec", "BPT.Rust.rebalance_spec",
            "BPT.Rust.insertRec_links", "BPT.Rust.removeRec_links",
        ],
        "ties": ["BPT.Tie.rust_min_capacity",
            "BPT.Tie.rust_leaf_min_keys_eq", "BPT.Tie.rust_branch_min_keys_eq",
            "BPT.Tie.rust_leaf_is_full_eq", "BPT.Tie.rust_branch_is_full_eq",
            "BPT.Tie.rust_leaf_is_underfull_eq", "BPT.Tie.rust_branch_is_underfull_eq",
            "BPT.Tie.rust_leaf_can_donate_eq", "BPT.Tie.rust_branch_can_donate_eq",
            "BPT.Tie.rust_leaf_split_mid_node_eq", "BPT.Tie.rust_leaf_split_mid_insert_eq",
            "BPT.Tie.rust_leaf_insert_goes_left_eq", "BPT.Tie.rust_branch_split_mid_eq",
            "BPT.Tie.rust_rebalance_tests"],
        "suites": [
            {"kind": "rust", "suite": "tree-deep", "quick": {"cases": 1, "len": 100000}, "thorough": {"cases": 4, "len": 750000}},
            {"kind": "rust", "suite": "tree-exh", "quick": {"cases": 65536, "len": 4}, "thorough": {"cases": 131072, "len": 5}},
            {"kind": "rust", "suite": "tree-ops",
             "quick": {"cases": 500, "len": 300}, "thorough": {"cases": 3000, "len": 400}},
        ],
        "nontrivial": "a case is non-trivial when the tree reached a branch root and at least one removal returned a value; the independent structural checker and the three validators run after every mutation; distinct = distinct op-line sequences",
    },
    "C06": {
        "title": "Rust node arenas: allocated slots equal reachable nodes; freed slots are reused",
        "module": "BPT.Props.C06",
        "tags": ["C06"],
        "theorems": [
            "BPT.Props.C06.ids_exact", "BPT.Props.C06.free_list_exact", "BPT.Props.C06.allocated_eq_reachable",
            "BPT.Props.C06.reachable_nodes_stored", "BPT.Props.C06.clear_single_leaf", "BPT.Props.C06.alloc_reuses",
            "BPT.Props.C06.introspection_agrees", "BPT.Props.C06.count_nodes_eq_allocated", "BPT.Props.C06.slots_le_peak_live",
            "BPT.Rust.insert_len_le", "BPT.Rust.remove_lens", "BPT.Rust.insertRec_grow", "BPT.Rust.removeRec_lens",
            "BPT.Rust.lenFrom_spec", "BPT.Rust.leafCountFrom_spec", "BPT.Rust.countNodesFrom_spec", "BPT.Rust.leafSizesFrom_spec", "BPT.Rust.leafIdsFrom_spec",
            "BPT.Props.C02.reachable_sinv",
            "BPT.Rust.insertRec_bids", "BPT.Rust.removeRec_bids", "BPT.Rust.collapse_struct", "BPT.Rust.view_arenas",
        ],
        "ties": ["BPT.Tie.rust_null_node", "BPT.Tie.rust_default_capacity"],
        "suites": [
            {"kind": "rust", "suite": "tree-deep", "quick": {"cases": 1, "len": 150000}, "thorough": {"cases": 4, "len": 750000}},
            {"kind": "rust", "suite": "tree-exh", "quick": {"cases": 8192, "len": 3}, "thorough": {"cases": 65536, "len": 4}},
            {"kind": "rust", "suite": "tree-ops",
             "quick": {"cases": 500, "len": 300}, "thorough": {"cases": 3000, "len": 400}},
        ],
        "nontrivial": "a case is non-trivial when the tree reached a branch root and at least one removal returned a value; raw arena state (storage length, mask, free-list order) is compared with the model after every mutation; distinct = distinct op-line sequences",
    },
    "C10": {
        "title": "Rust checked/bulk API and constructors agree with the basic operations",
        "module": "BPT.Props.C10",
        "tags": ["C10"],
        "theorems": [
            "BPT.Props.C10.new_rejects_iff", "BPT.Props.C10.new_ok", "BPT.Props.C10.default_ok",
            "BPT.Props.C10.try_get_spec", "BPT.Props.C10.get_many_spec", "BPT.Props.C10.batch_insert_eq_fold",
            "BPT.Props.C10.validate_for_operation_ok",
            "BPT.Props.C10.try_insert_eq_insert", "BPT.Props.C10.try_remove_eq_remove", "BPT.Props.C10.try_get_eq_get",
            "BPT.Props.C10.get_many_model_spec", "BPT.Props.C10.batch_insert_eq_inserts", "BPT.Props.C10.never_integrity_error",
            "BPT.Rust.refuse_unchanged",
            "BPT.Props.C01.step_refines", "BPT.Props.C02.reachable_sinv",
        ],
        "ties": ["BPT.Tie.rust_min_capacity", "BPT.Tie.rust_default_capacity", "BPT.Tie.rust_new_rejects_iff", "BPT.Tie.rust_empty_rejects_iff",
                 "BPT.Tie.rust_src_try_insert_eq", "BPT.Tie.rust_src_try_remove_eq", "BPT.Tie.rust_src_batch_insert_eq", "BPT.Tie.rust_src_get_item_eq",
                 "BPT.Tie.rust_src_try_get_eq", "BPT.Tie.rust_src_get_many_eq", "BPT.Tie.rust_src_contains_key_eq", "BPT.Tie.rust_src_get_or_default_eq",
                 "BPT.Tie.rust_src_remove_item_eq", "BPT.Tie.rust_src_validate_eq", "BPT.Tie.rust_src_validate_for_operation_eq"],
        "suites": [
            {"kind": "rust", "suite": "tree-api",
             "quick": {"cases": 480, "len": 150}, "thorough": {"cases": 1500, "len": 200}},
            {"kind": "rust", "suite": "tree-deep", "quick": {"cases": 1, "len": 100000}, "thorough": {"cases": 4, "len": 750000}},
        ],
        "nontrivial": "case 0 enumerates new(c)/empty(c) for every c in 0..=4096 (complete); the other cases mix checked and basic calls — non-trivial when both an `ok` and an `err` answer occur; distinct = distinct op-line sequences",
        "trusted_extra": ["the wrapper models (BPT/Rust/Checked.lean) are a hand transcription of the wrappers' source text; the text is pinned by the tie lemmas rust_src_*_eq (any edit of a wrapper breaks one) and the same model functions are run against the crate call by call", "`Small` (arenas below 2^32 slots) is assumed of the states a call passes through; the limit itself is C16"],
    },
    "C11": {
        "title": "Rust map never leaks or duplicates the keys and values it stores",
        "module": "BPT.Props.C11",
        "tags": ["C11"],
        "level": "proof",
        "theorems": [
            "BPT.Props.C11.insert_conserves", "BPT.Props.C11.remove_conserves", "BPT.Props.C11.live_values_eq_len",
            "BPT.Props.C11.leaf_keys_eq_len", "BPT.Props.C11.live_keys_bounds", "BPT.Props.C11.freed_slots_default",
            "BPT.Props.C11.clear_owns_nothing", "BPT.Props.C01.step_refines",
        ],
        "ties": ["BPT.Tie.no_manual_ownership", "BPT.Tie.rust_default_capacity"],
        "suites": [
            {"kind": "rust", "suite": "tree-exh", "quick": {"cases": 8192, "len": 3}, "thorough": {"cases": 65536, "len": 4}},
            {"kind": "rust", "suite": "tree-ops",
             "quick": {"cases": 500, "len": 300}, "thorough": {"cases": 3000, "len": 400},
             "miri": {"thorough": {"procs": 8, "cases": 2, "len": 40}}},
        ],
        "nontrivial": "a case is non-trivial when the tree reached a branch root and at least one removal returned a value; instance counters of keys and values are checked after every mutation and after drop; distinct = distinct op-line sequences",
        "trusted_extra": ["'dropped exactly once' is Rust's ownership discipline: no manual-ownership primitive occurs in the crate (translator inventory, tie lemma) and the harness's instance counters observe it; it is not a theorem"],
    },
    "C03": {
        "title": "Rust range queries return exactly the entries inside the bounds",
        "module": "BPT.Props.C03",
        "tags": ["C03"],
        "theorems": [
            "BPT.Props.C03.range_eq_filter", "BPT.Props.C03.items_range_eq", "BPT.Props.C03.items_from_key_eq",
            "BPT.Props.C03.empty_or_inverted_is_empty",
            "BPT.Props.C03.mem_range_iff",
            "BPT.Props.C03.range_unbounded_all",
            "BPT.Props.C03.range_split",
            "BPT.Props.C03.Legacy.range_excluded_absent_drops_first", "BPT.Props.C03.Legacy.included_end_key_ignored",
            "BPT.Props.C02.reachable_sinv",
        ],
        "ties": ["BPT.Tie.rust_range_skip_only_matched", "BPT.Tie.rust_end_key_honours_inclusive"],
        "suites": [
            {"kind": "rust", "suite": "tree-deep", "quick": {"cases": 2, "len": 720000}, "thorough": {"cases": 4, "len": 750000}},
            {"kind": "rust", "suite": "tree-range",
             "quick": {"cases": 720, "len": 120}, "thorough": {"cases": 2000, "len": 200}},
        ],
        "nontrivial": "a case is non-trivial when the tree reached a branch root and both an empty and a non-empty range answer occurred; endpoints are aimed at present keys, gaps next to them, leaf boundaries, below min / above max and i64 extremes; distinct = distinct op-line sequences",
    },
    "C05": {
        "title": "Rust unchecked fast paths never touch unallocated or out-of-range slots",
        "module": "BPT.Props.C05",
        "tags": ["C05"],
        "theorems": [
            "BPT.Props.C05.readers_safe_on_reachable", "BPT.Props.C05.p1_safe_on_valid_maps_even_unguarded",
            "BPT.Props.C05.next_safe_any_state", "BPT.Rust.readers_noub", "BPT.Rust.itemNext_noub", "BPT.Rust.fastNext_noub",
            "BPT.Rust.rangeNext_noub", "BPT.Props.C02.reachable_sinv",
        ],
        "ties": ["BPT.Tie.unsafe_sites_catalogue", "BPT.Tie.unchecked_calls_catalogue", "BPT.Tie.rust_iter_guard_both", "BPT.Tie.rust_fast_checked"],
        "suites": [
            {"kind": "rust", "suite": "tree-ops", "quick": {"cases": 120, "len": 250}, "thorough": {"cases": 1500, "len": 400}},
            {"kind": "rust", "suite": "tree-iter", "quick": {"cases": 120, "len": 150}, "thorough": {"cases": 1000, "len": 200},
             "miri": {"thorough": {"procs": 6, "cases": 3, "len": 60}}},
            {"kind": "rust", "suite": "tree-range", "quick": {"cases": 120, "len": 120}, "thorough": {"cases": 1000, "len": 200},
             "miri": {"thorough": {"procs": 6, "cases": 3, "len": 50}}},
            {"kind": "rust", "suite": "tree-faults", "quick": {"cases": 600, "len": 120}, "thorough": {"cases": 6000, "len": 200},
             "miri": {"thorough": {"procs": 6, "cases": 3, "len": 40}}},
        ],
        "nontrivial": "the hooked build asserts the documented precondition inside every unchecked accessor; a case is non-trivial as in C01/C02/C03; distinct = distinct op-line sequences",
        "trusted_extra": ["'no undefined behaviour' beyond the catalogued unchecked sites rests on safe Rust: the translator inventory shows no other `unsafe` token in the crate (tie lemma)"],
    },
    "C15": {
        "title": "Rust safe node/arena helper API cannot be used to reach undefined behaviour",
        "module": "BPT.Props.C15",
        "tags": ["C15"],
        "theorems": [
            "BPT.Props.C15.no_ub_from_any_state", "BPT.Props.C15.validators_no_ub", "BPT.Props.C15.next_no_ub", "BPT.Props.C15.positioned_constructors_no_ub",
            "BPT.Props.C15.legacy_witnesses", "BPT.Rust.readers_noub", "BPT.Rust.checkDetailed_noub",
        ],
        "ties": ["BPT.Tie.unsafe_sites_catalogue", "BPT.Tie.unchecked_calls_catalogue", "BPT.Tie.rust_iter_guard_both", "BPT.Tie.rust_fast_checked"],
        "suites": [
            {"kind": "rust", "suite": "tree-helpers", "quick": {"cases": 3000, "len": 60}, "thorough": {"cases": 20000, "len": 80},
             "miri": {"thorough": {"procs": 8, "cases": 6, "len": 40}}},
        ],
        "nontrivial": "a case applies 1-5 safe helper calls (push_key without value, take_values, take_keys, pop, remove_at, set_leaf_next to a freed / out-of-range / later slot, deallocate a linked leaf or a branch, allocate an unlinked leaf) to a multi-level map and then runs every reader on the hooked build; non-trivial when the state reached a branch root; distinct = distinct op-line sequences; chains are kept acyclic",
    },
    "C14": {
        "title": "Rust validators reject every documented kind of structural damage",
        "module": "BPT.Props.C14",
        "tags": ["C14"],
        "theorems": [
            "BPT.Rust.checkNode_sound", "BPT.Rust.checkInvariants_sound", "BPT.Props.C14.reach_ok",
            "BPT.Props.C14.rejects_dangling_reference", "BPT.Props.C14.rejects_bad_leaf", "BPT.Props.C14.rejects_bad_branch",
            "BPT.Props.C14.rejects_underfull", "BPT.Props.C14.rejects_out_of_interval",
            "BPT.Props.C14.detailed_sound_partial", "BPT.Props.C14.detailed_rejects_what_basic_rejects",
            "BPT.Props.C14.detailed_sound", "BPT.Props.C14.api_built_caps_intact", "BPT.Props.C14.rejects_chain_damage", "BPT.Props.C14.rejects_unreachable_node",
            "BPT.Props.C14.rejects_orphan_leaf", "BPT.Props.C14.checked_mutators_refuse", "BPT.Props.C14.checked_mutators_leave_unchanged", "BPT.Rust.leafIdsFrom_ok", "BPT.Rust.chainIds_nodup", "BPT.Rust.items_along_chain",
            "BPT.Rust.chain_eq_tree", "BPT.Rust.branchIds_nodup", "BPT.Rust.branches_reachable",
            "BPT.Props.C14.Legacy.validator_accepts_empty_leaf",
        ],
        "ties": ["BPT.Tie.rust_validator_checks_empty", "BPT.Tie.rust_leaf_is_underfull_eq", "BPT.Tie.rust_branch_is_underfull_eq",
                 "BPT.Tie.rust_src_try_insert_eq", "BPT.Tie.rust_src_try_remove_eq", "BPT.Tie.rust_src_batch_insert_eq",
                 "BPT.Tie.rust_src_validate_eq", "BPT.Tie.rust_src_validate_for_operation_eq"],
        "suites": [
            {"kind": "rust", "suite": "tree-damage", "quick": {"cases": 2000, "len": 60}, "thorough": {"cases": 14000, "len": 120}},
            {"kind": "rust", "suite": "tree-deep", "quick": {"cases": 1, "len": 40000}, "thorough": {"cases": 4, "len": 750000}},
        ],
        "nontrivial": "each case builds a valid multi-level map, injects ONE precise kind of damage (14 kinds: unsorted, duplicate, count mismatch, over capacity, underfull, emptied node, key outside interval, arity, dangling child, chain skip / truncate / misorder / dangling, orphan allocated leaf) at a generated node/position and runs every validator plus try_insert/try_remove; non-trivial when the damage applied to a map with a branch root; distinct = distinct op-line sequences; the per-kind counts are under structural_events",
        "trusted_extra": ["`detailed_sound` (chain = tree leaves in order, no allocated node unreachable) assumes the per-node capacity fields are intact (`CapsIntact`: every stored leaf's own `capacity` equals the map's, which is >= 2); no documented damage kind touches them, and without it an emptied leaf with a forged capacity field can sit anywhere in the chain unnoticed (the validators compare occupancy with the node's own field)", "a cyclic chain makes the real validators loop forever; the model returns `diverge`, which the theorems count as 'not Ok(())' (the property restricts chain damage to acyclic chains)"],
    },
    "C07": {
        "title": "Python BPlusTreeMap behaves like dict for every call history",
        "module": "BPT.Props.C07",
        "tags": ["C07"],
        "theorems": [
            "BPT.Props.C07.step_refines", "BPT.Props.C07.run_refines", "BPT.Props.C07.refines_dict",
            "BPT.Props.C07.capacity_guard", "BPT.Props.C07.get_returns_stored", "BPT.Props.C07.get_default_iff_absent",
            "BPT.Props.C07.popitem_removes_smallest", "BPT.Props.C07.deleted_key_absent", "BPT.Props.C07.len_after_assign", "BPT.Props.C07.len_after_delete", "BPT.Props.C07.abs_strictly_ascending", "BPT.Props.C07.copy_same_contents",
            "BPT.Props.C07.Legacy.get_none_returns_default",
            "BPT.Py.insertRec_spec", "BPT.Py.deleteRec_spec", "BPT.Py.handleUnderflow_spec",
            "BPT.Py.setitem_spec", "BPT.Py.delitem_spec", "BPT.Py.findRec_spec", "BPT.Py.len_spec", "BPT.Py.items_spec",
            "BPT.Py.firstEntry_spec", "BPT.Py.update_spec", "BPT.Py.step_spec",
        ],
        "ties": PY_TIES,
        "suites": [
            {"kind": "py", "suite": "py-ops", "quick": {"cases": 400, "len": 80}, "thorough": {"cases": 3000, "len": 120}},
            {"kind": "py", "suite": "py-deep", "quick": {"cases": 1, "len": 200}, "thorough": {"cases": 6, "len": 2000}},
        ],
        "nontrivial": "a py-ops case is non-trivial when the tree grew beyond a single leaf and at least one deletion succeeded; a py-deep case when the tree has at least 1000 leaves (len / bool / popitem / iteration at scale); keys in 5 representations (int, str, tuple, float, user-defined class), values include None; distinct = distinct op-line sequences",
        "trusted_extra": ["'len works for any number of entries' is a statement about the interpreter stack: the translator checks that __len__ is a loop calling no recursive helper (tie py_len_iterative_eq) and py-deep calls len() on trees with thousands of leaves; the model's len is total",
                          "copy independence of the real objects (no shared nodes) is checked by the harness; in the purely functional model it holds by construction"],
    },
    "C08": {
        "title": "Python iteration is sorted and complete; range(a, b) is exactly [a, b)",
        "module": "BPT.Props.C08",
        "tags": ["C08"],
        "theorems": [
            "BPT.Props.C08.items_eq_filter", "BPT.Props.C08.items_all", "BPT.Props.C08.keys_eq", "BPT.Props.C08.values_eq",
            "BPT.Props.C08.empty_or_inverted", "BPT.Props.C08.mem_items_iff", "BPT.Props.C08.items_sorted", "BPT.Props.C08.items_split", "BPT.Props.C08.chain_is_leaves",
            "BPT.Props.C08.items_after_history",
            "BPT.Py.items_spec", "BPT.Py.chain_spec", "BPT.Py.routeLeaf_spec", "BPT.Py.chainFrom_suffix", "BPT.Props.C07.refines_dict",
        ],
        "ties": PY_TIES,
        "suites": [
            {"kind": "py", "suite": "py-exh4", "quick": {"cases": 3400, "len": 4}, "thorough": {"cases": 3400, "len": 4}},
            {"kind": "py", "suite": "py-range", "quick": {"cases": 600, "len": 80}, "thorough": {"cases": 2500, "len": 120}},
        ],
        "nontrivial": "a case is non-trivial when the tree grew beyond a single leaf and both an empty and a non-empty bounded scan occurred; endpoints are drawn from present keys, absent keys, below-min / above-max sentinels and None; distinct = distinct op-line sequences",
    },
    "C09": {
        "title": "Python tree keeps B+ tree invariants; bulk load equals incremental build",
        "module": "BPT.Props.C09",
        "tags": ["C09"],
        "theorems": [
            "BPT.Props.C09.step_inv", "BPT.Props.C09.reachable_inv", "BPT.Props.C09.capacity_guard",
            "BPT.Props.C09.all_leaves_same_depth", "BPT.Props.C09.root_branch_two_children", "BPT.Props.C09.node_clauses",
            "BPT.Props.C09.chain_is_leaves", "BPT.Props.C09.from_sorted_eq_incremental", "BPT.Props.C09.bulk_fast_path_sound",
            "BPT.Props.C09.Legacy.py_empty_branch_survives",
            "BPT.Py.fromSorted_spec", "BPT.Py.insertSorted_spec", "BPT.Py.mapLeaf_last",
            "BPT.Py.insertRec_spec", "BPT.Py.deleteRec_spec", "BPT.Py.handleLeaf_spec", "BPT.Py.handleBranch_spec",
            "BPT.Py.setitem_spec", "BPT.Py.delitem_spec", "BPT.Py.clear_spec", "BPT.Py.pinv_new",
        ],
        "ties": PY_TIES,
        "suites": [
            {"kind": "py", "suite": "py-exh4", "quick": {"cases": 3400, "len": 4}, "thorough": {"cases": 3400, "len": 4}},
            {"kind": "py", "suite": "py-ops", "quick": {"cases": 400, "len": 80}, "thorough": {"cases": 3000, "len": 120}},
            {"kind": "py", "suite": "py-exh", "quick": {"cases": 648 + 4000, "len": 3}, "thorough": {"cases": 24000 + 40000, "len": 5}},
        ],
        "nontrivial": "a case is non-trivial when the tree grew beyond a single leaf and at least one deletion succeeded; the independent structural walk (incl. chain = leaves in order) runs after every mutation and the full structural dump is compared with the model; py-exh enumerates every set/del history of the given depth over 3 keys in the middle of a multi-leaf tree at capacities 4, 5, 6; from_sorted_items cases compare contents and shape with an incremental build; distinct = distinct op-line sequences",
        "trusted_extra": ["that from_sorted_items produces the same SHAPE as the incremental build (beyond the property: same contents + invariants, which are theorems) is checked by the harness only"],
    },
    "C12": {
        "title": "C extension mapping behaves like dict; iterators fail fast on mutation",
        "module": "BPT.Props.C12",
        "tags": ["C12"],
        "theorems": [
            "BPT.Props.C12.step_refines", "BPT.Props.C12.run_refines", "BPT.Props.C12.refines_dict",
            "BPT.Props.C12.iterator_fail_fast", "BPT.Props.C12.mutation_bumps_stamp",
            "BPT.Props.C12.iterator_stale_after_set", "BPT.Props.C12.iterator_stale_after_del", "BPT.Props.C12.wupdate_spec",
            "BPT.Props.C12.items_sorted_complete", "BPT.Props.C12.next_yields_head",
            "BPT.C.iterNext_pos", "BPT.C.drain_pos", "BPT.C.items_spec", "BPT.C.skipEmpty_suffix",
            "BPT.C.wpopitem_spec", "BPT.C.wcopy_spec", "BPT.C.wclear_spec", "BPT.C.firstItem_spec",
            "BPT.C.insertRec_spec", "BPT.C.deleteRec_spec", "BPT.C.findRec_spec", "BPT.C.setitem_spec", "BPT.C.delitem_spec",
            "BPT.C.getitem_spec", "BPT.C.contains_spec", "BPT.C.len_spec", "BPT.C.cinv_new", "BPT.C.routePos_eq",
            "BPT.Props.C12.binary_search_is_lower_bound", "BPT.Props.C12.int_fast_path_is_order", "BPT.Props.C12.str_fast_path_is_sign",
        ],
        "ties": C_TIES,
        "suites": [
            {"kind": "c", "suite": "c-ops", "quick": {"cases": 300, "len": 80}, "thorough": {"cases": 2500, "len": 150}},
            {"kind": "c", "suite": "c-exh", "quick": {"cases": 432, "len": 3}, "thorough": {"cases": 16000, "len": 5}},
        ],
        "nontrivial": "a case is non-trivial when the tree grew beyond a single leaf and at least one deletion succeeded; every case picks one of three ways to drive the extension (the type, a trivial Python subclass, the package wrapper) and one of four key representations (exact int, exact str, user-defined class with rich comparison, ints beyond C long); iterators are created, advanced, interleaved with mutations and advanced again; c-exh enumerates every set/del history of the given depth over 3 keys in the middle of a multi-leaf tree; the full structural dump (incl. emptied leaves) is compared with the model; distinct = distinct op-line sequences",
        "trusted_extra": ["CPython itself: PyLong_AsLong / PyUnicode_Compare / PyObject_RichCompareBool are assumed to implement the key type's total order (the model's `ord`); the int fast path and the binary search built on them are modelled (BPT/C/Search.lean) and pinned by source-text ties; the exact-str branch is modelled relative to PyUnicode_Compare's result (sign of the code-point order, assumed); PyArg parsing and error propagation from a raising __lt__ are covered by the correspondence run only"],
    },
    "C13": {
        "title": "C extension is memory-safe and balances reference counts",
        "module": "BPT.Props.C13",
        "tags": ["C13"],
        "theorems": [
            "BPT.Props.C13.no_out_of_bounds", "BPT.Props.C13.no_out_of_bounds_along_histories",
            "BPT.Props.C13.setitem_balanced", "BPT.Props.C13.delitem_balanced", "BPT.Props.C13.lookups_balanced",
            "BPT.Props.C13.dealloc_balanced", "BPT.Props.C13.owned_eq_slots_step", "BPT.Props.C13.capacity_exact",
            "BPT.Props.C13.iterator_step_balanced", "BPT.Props.C13.stale_iterator_touches_nothing", "BPT.C.iterNext_refs",
            "BPT.Props.C13.Legacy.capacity_truncates", "BPT.Props.C13.Legacy.leaf_split_leaks",
            "BPT.C.insertLeaf_refs", "BPT.C.insertBranch_refs", "BPT.C.insertRec_refs", "BPT.C.deleteRec_refs", "BPT.C.setitem_refs",
            "BPT.C.new_spec",
            "BPT.Props.C13.failed_call_keeps_nothing", "BPT.C.raisingCall_state", "BPT.C.raisingCall_refs", "BPT.C.searchCompares_of_root_keys",
            "BPT.Props.C13.gc_traverse_exact", "BPT.Props.C13.gc_traverse_exact_along_histories", "BPT.Props.C13.gc_traverse_needs_shape",
            "BPT.C.gcVisit_eq_slotsOf", "BPT.Props.C13.dealloc_two_pass_balanced", "BPT.Props.C13.dealloc_without_nulling_double_release",
            "BPT.C.destroyVisit_eq_gcVisit",
        ],
        "ties": C_TIES,
        "suites": [
            {"kind": "c", "suite": "c-ops", "quick": {"cases": 300, "len": 80}, "thorough": {"cases": 2500, "len": 150}},
            {"kind": "c", "suite": "c-caps", "quick": {"cases": 1, "len": 1}, "thorough": {"cases": 1, "len": 1}},
        ],
        "nontrivial": "as C12; in addition after every mutation sys.getrefcount of every tracked key and value object minus its baseline must equal the number of tree slots holding it (from _verif_dump), and zero after the tree is destroyed; the model's slot multiset is compared with the implementation's (`refs` lines); every generated history is replayed under AddressSanitizer; c-caps drives capacities 0, 3, 4, …, 65535, 65536, 65537, 65540, 131072, 2^31-1 through all three ways of constructing the object; a crash or sanitizer report of the driver process is an oracle failure with the operations executed so far as replay",
        "trusted_extra": ["CPython's allocator protocol for instances of Python subclasses (D10), GC traversal / tp_clear and use-after-free of the C heap are not expressible in the model: tie lemma c_alloc_via_type_slots_eq + subclass and wrapper lifecycles under the harness + AddressSanitizer replay + refcount/weakref audit observe them",
                          "the iterator object's own reference on the tree object (Py_INCREF(self) in iter/items, Py_XDECREF in its dealloc) is pinned by source-text ties and observed by the lifecycle audit; tree-object reference counts are not part of the model (it counts key and value objects)"],
    },
}


# --------------------------------------------------------------------------
# tie lemmas per property
# --------------------------------------------------------------------------
# Ties are elaborated one by one (./check tie_audit), so each property lists exactly the lemmas about
# source its own model transcribes: an edit that breaks some other property's tie leaves this one quiet.

_PY_C07_ONLY = {"BPT.TiePy." + n for n in (
    "py_get_checks_presence_eq py_get_return_eq py_len_iterative_eq py_api_pop_eq py_api_popitem_eq py_api_setdefault_eq "
    "py_api_copy_eq py_api_getitem_eq py_api_contains_eq py_api_delitem_eq py_api_bool_eq").split()}
_PY_C08_ALSO_C07 = {"BPT.TiePy." + n for n in "py_items_tests_eq py_items_for_eq py_find_position_in_leaf_tests_eq".split()}
_PY_C09_ONLY = {"BPT.TiePy." + n for n in "py_sorted_fast_test_eq py_sorted_fast_body_eq".split()}
_PY_CLEAR = {"BPT.TiePy.py_api_clear_eq"}
_PY_SHARED = [t for t in PY_TIES if t not in _PY_C07_ONLY | _PY_C08_ALSO_C07 | _PY_C09_ONLY | _PY_CLEAR]
PROPS["C07"]["ties"] = _PY_SHARED + sorted(_PY_C07_ONLY | _PY_C08_ALSO_C07 | _PY_CLEAR)
PROPS["C08"]["ties"] = _PY_SHARED + sorted(_PY_C08_ALSO_C07)
PROPS["C09"]["ties"] = _PY_SHARED + sorted(_PY_C09_ONLY | _PY_CLEAR)

_C_C13_ONLY = {"BPT.TieC." + n for n in "c_refcount_sites_eq c_alloc_via_type_slots_eq c_src_BPlusTreeIterator_dealloc_eq c_header_bits".split()}
PROPS["C12"]["ties"] = [t for t in C_TIES if t not in _C_C13_ONLY]
PROPS["C13"]["ties"] = list(C_TIES)


def _rust_snapshot():
    import json
    import os
    path = os.path.join(os.path.dirname(os.path.abspath(__file__)), "rustfn_snapshot.json")
    try:
        return json.load(open(path))
    except (OSError, ValueError):
        return {"functions": {}, "residues": {}, "property_functions": {}, "property_residues": {}}


_SNAP = _rust_snapshot()


def _mangle(name):
    import re
    return re.sub(r"[^A-Za-z0-9]", "_", name)


def rust_fn_ties(pid):
    fs = _SNAP["property_functions"].get(pid, [])
    rs = _SNAP["property_residues"].get(pid, [])
    return ["BPT.TieRust.rustfn_%s_eq" % _mangle(n) for n in fs] + ["BPT.TieRust.rustres_%s_eq" % _mangle(f) for f in rs]


def _src_snapshot():
    import json
    import os
    path = os.path.join(os.path.dirname(os.path.abspath(__file__)), "srcfn_snapshot.json")
    try:
        return json.load(open(path))
    except (OSError, ValueError):
        return {"functions": {}, "property_functions": {}}


_SRC = _src_snapshot()


def src_fn_ties(pid):
    return ["BPT.TieSrc.srcfn_%s_eq" % _mangle(n) for n in _SRC["property_functions"].get(pid, [])]


def ties_for(pid):
    return list(PROPS[pid].get("ties", [])) + rust_fn_ties(pid) + src_fn_ties(pid)


def tie_detail(name):
    """for a broken source-text tie of a Rust function: a unified diff of its normalised text (snapshot the model
    was written against vs /repo now)"""
    import difflib
    import json
    import os
    import re
    m = re.match(r"BPT\.TieRust\.(rustfn|rustres)_(.*)_eq$", name)
    if not m:
        return ""
    kind, mg = m.group(1), m.group(2)
    table = _SNAP["functions"] if kind == "rustfn" else _SNAP["residues"]
    key = next((k for k in table if _mangle(k) == mg), None)
    if key is None:
        return ""
    cur_path = os.path.join(os.path.dirname(os.path.abspath(__file__)), "..", "build", "rustfn_current.json")
    try:
        cur = json.load(open(cur_path))
    except (OSError, ValueError):
        return " [%s]" % key
    now = cur["functions" if kind == "rustfn" else "residues"].get(key)
    if now is None:
        return " [%s: no longer present in the source]" % key

    def toks(t):
        return re.sub(r"([;{}])", r"\1\n", t).split("\n")
    diff = [l for l in difflib.unified_diff(toks(table[key]["text"]), toks(now), "model was written against", "/repo now", lineterm="", n=1)]
    return " [%s] source changed:\n%s" % (key, "\n".join(diff[:40]))
