"""Per-property configuration of ./check: which Lean module holds the property
theorems, which theorems and tie lemmas are the obligations, which
correspondence / oracle suites run at which budget."""

ALLOWED_AXIOMS = {"propext", "Classical.choice", "Quot.sound"}

TRUSTED_BASE = [
    "Lean 4.33 kernel (thorough tier re-checks the property module with leanchecker)",
    "axioms allowed in property theorems: propext, Classical.choice, Quot.sound (audited with #print axioms on every run); no native_decide, bv_decide, sorry, admit or user axioms",
    "the hand-written Lean models are models of the code: tied to /repo by tools/extract.py (constants, thresholds, guards, unsafe/ownership inventories regenerated and proved equal in BPT/Generated/Tie.lean) and by the correspondence harness (same operation lines executed by the real code and by the compiled model, outputs and structural dumps diffed)",
    "tools/extract.py, tools/exprtrans.py, the harnesses and ./check themselves",
    "Vec / slice / mem::take / binary_search, Python list / bisect, CPython refcount macros behave as documented; key ordering is a lawful total order",
]

# suites: name -> dict(kind, args per tier)
#   kind "rust": bpt-harness gen <suite> ...
PROPS = {
    "C16": {
        "title": "CompactArena handles stay valid and unique until they are released",
        "module": "BPT.Props.C16",
        "theorems": [
            "BPT.Props.C16.step_refines",
            "BPT.Props.C16.reachable_inv",
            "BPT.Props.C16.reachable_from_new",
            "BPT.Props.C16.step_ok",
            "BPT.Props.C16.allocate_fresh",
            "BPT.Props.C16.get_other_none",
            "BPT.Props.C16.release_once",
            "BPT.Props.C16.counters_exact",
            "BPT.Props.C16.clear_invalidates_all",
            "BPT.Props.C16.compact_keeps_live",
            "BPT.Props.C16.allocate_reuses",
            "BPT.Props.C16.allocate_full_refused",
            "BPT.Props.C16.Legacy.allocate_returns_null",
        ],
        "ties": [
            "BPT.Tie.rust_null_node_arena",
            "BPT.Tie.rust_nodeid_bits",
            "BPT.Tie.rust_arena_alloc_limit_eq",
        ],
        "suites": [
            {"kind": "rust", "suite": "arena",
             "quick": {"cases": 200, "len": 300}, "thorough": {"cases": 10000, "len": 300}},
        ],
        "nontrivial": "a case is non-trivial when it contains at least one slot reuse (an `alloc` answered with a previously released id) and one failed release; distinct = distinct op-line sequences",
    },
    "C01": {
        "title": "Rust map: every call history agrees with a reference ordered map",
        "module": "BPT.Props.C01",
        "tags": ["C01"],
        "theorems": [
            "BPT.Props.C01.step_refines",
            "BPT.Props.C01.run_refines",
            "BPT.Props.C01.refines_btreemap",
            "BPT.Props.C01.reachable_inv",
            "BPT.Props.C01.abs_sorted",
            "BPT.Props.C01.insert_keeps_first_key_object",
            "BPT.Props.C01.insert_absent",
            "BPT.Props.C01.lookup_insert_ne",
            "BPT.Props.C01.lookup_erase_ne",
            "BPT.Props.C01.lookup_adjust_ne",
            "BPT.Rust.insertRec_spec",
            "BPT.Rust.removeRec_spec",
            "BPT.Rust.insert_spec",
            "BPT.Rust.remove_spec",
            "BPT.Rust.get_spec",
            "BPT.Rust.len_spec",
            "BPT.Rust.getMutWrite_spec",
            "BPT.Rust.new_spec",
        ],
        "ties": [
            "BPT.Tie.rust_min_capacity",
            "BPT.Tie.rust_leaf_min_keys_eq", "BPT.Tie.rust_branch_min_keys_eq",
            "BPT.Tie.rust_leaf_is_full_eq", "BPT.Tie.rust_branch_is_full_eq",
            "BPT.Tie.rust_leaf_is_underfull_eq", "BPT.Tie.rust_branch_is_underfull_eq",
            "BPT.Tie.rust_leaf_can_donate_eq", "BPT.Tie.rust_branch_can_donate_eq",
            "BPT.Tie.rust_leaf_split_mid_node_eq", "BPT.Tie.rust_leaf_split_mid_insert_eq",
            "BPT.Tie.rust_leaf_insert_goes_left_eq", "BPT.Tie.rust_branch_split_mid_eq",
            "BPT.Tie.rust_rebalance_tests",
        ],
        "suites": [
            {"kind": "rust", "suite": "tree-ops",
             "quick": {"cases": 100, "len": 300}, "thorough": {"cases": 3000, "len": 400}},
        ],
        "nontrivial": "a case is non-trivial when the tree reached a branch root (at least one leaf split) and at least one removal returned a value; distinct = distinct op-line sequences; structural events (splits, merges, root growth, multi-level collapse) are counted by the harness under `structural_events`",
    },
}
