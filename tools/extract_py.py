"""Python part of the translator (pure-Python BPlusTreeMap, python/bplustree/bplus_tree.py).

Uses the `ast` module: arithmetic / comparison policy expressions are handed to
exprtrans and become Lean functions over Nat; control-flow shapes that the model
depends on (which sibling is tried first, which test guards a merge, how `get`
decides presence, that `__len__` does not recurse) are emitted as normalised
source strings and Booleans, which BPT/Generated/TiePy.lean proves equal to what
the model assumes."""
import ast
import re

from exprtrans import translate, TranslateError


def _norm(node):
    return re.sub(r"\s+", " ", ast.unparse(node)).strip()


class _Mod:
    def __init__(self, src):
        self.tree = ast.parse(src)
        self.classes = {c.name: c for c in self.tree.body if isinstance(c, ast.ClassDef)}
        self.consts = {}
        for n in self.tree.body:
            if isinstance(n, ast.Assign) and len(n.targets) == 1 and isinstance(n.targets[0], ast.Name) and isinstance(n.value, ast.Constant):
                self.consts[n.targets[0].id] = n.value.value

    def method(self, cls, name):
        c = self.classes.get(cls)
        if c is None:
            return None
        for f in c.body:
            if isinstance(f, ast.FunctionDef) and f.name == name:
                return f
        return None


def _returns(fn):
    return [n for n in ast.walk(fn) if isinstance(n, ast.Return) and n.value is not None]


def _assigns(fn, var):
    out = []
    for n in ast.walk(fn):
        if isinstance(n, ast.Assign) and len(n.targets) == 1 and isinstance(n.targets[0], ast.Name) and n.targets[0].id == var:
            out.append(n.value)
    return out


def _calls(fn):
    out = []
    for n in ast.walk(fn):
        if isinstance(n, ast.Call):
            out.append(_norm(n.func))
    return out


def python_part(g, read, strip_comments):
    try:
        m = _Mod(read("python/bplustree/bplus_tree.py"))
    except (OSError, SyntaxError) as ex:
        g.missing("py_MIN_CAPACITY", "cannot parse bplus_tree.py (%s)" % ex)
        return

    # ---- constants and the constructor guard
    if isinstance(m.consts.get("MIN_CAPACITY"), int):
        g.const("py_MIN_CAPACITY", m.consts["MIN_CAPACITY"], "python MIN_CAPACITY")
    else:
        g.missing("py_MIN_CAPACITY", "MIN_CAPACITY not a literal int")
    init = m.method("BPlusTreeMap", "__init__")
    guard = None
    if init:
        for n in init.body:
            if isinstance(n, ast.If) and any(isinstance(x, ast.Raise) and "InvalidCapacityError" in _norm(x) for x in n.body):
                guard = n.test
                break
    if guard is not None:
        g.fn_bool("py_ctor_rejects", "(capacity : Nat)", _norm(guard), {"capacity": "capacity", "MIN_CAPACITY": "py_MIN_CAPACITY"}, "BPlusTreeMap.__init__ raises InvalidCapacityError")
    else:
        g.missing("py_ctor_rejects", "capacity guard of BPlusTreeMap.__init__ not found")

    # ---- thresholds of both node classes
    env = {"self.capacity": "cap", "len(self.keys)": "n"}
    for kind, cls in (("leaf", "LeafNode"), ("branch", "BranchNode")):
        for fn in ("is_full", "is_underfull", "can_donate"):
            f = m.method(cls, fn)
            name = "py_%s_%s" % (kind, fn)
            if f is None:
                g.missing(name, "%s.%s not found" % (cls, fn))
                continue
            rets = _returns(f)
            if len(rets) != 1:
                g.missing(name, "%s.%s: expected exactly one return" % (cls, fn))
                continue
            e = dict(env)
            mk = _assigns(f, "min_keys")
            if mk:
                try:
                    e["min_keys"] = translate(_norm(mk[0]), env)
                except TranslateError as ex:
                    g.missing(name, "cannot translate min_keys (%s)" % ex)
                    continue
            g.fn_bool(name, "(cap n : Nat)", _norm(rets[0].value), e, "%s.%s()" % (cls, fn))
        f = m.method(cls, "split")
        name = "py_%s_split_mid" % kind
        mids = _assigns(f, "mid") if f else []
        if len(mids) == 1:
            g.fn_nat(name, "(n : Nat)", _norm(mids[0]), {"len(self.keys)": "n"}, "%s.split() midpoint" % cls)
        else:
            g.missing(name, "%s.split: expected one `mid = ...`" % cls)

    def src_of(cls, fn):
        f = m.method(cls, fn)
        return f

    def emit_str(name, text, comment):
        g.lines.append('/-- %s -/\ndef %s : String := "%s"' % (comment, name, text.replace("\\", "\\\\").replace('"', "'")))

    def emit_bool(name, val, comment):
        g.lines.append("/-- %s -/\ndef %s : Bool := %s" % (comment.replace("-/", "- /"), name, "true" if val else "false"))

    # ---- LeafNode.split slices, split_and_insert side test and separator
    f = src_of("LeafNode", "split")
    if f:
        shape = [_norm(n) for n in f.body if isinstance(n, ast.Assign)]
        emit_str("py_leaf_split_shape", " ; ".join(shape), "LeafNode.split: the assignments, in order")
    else:
        g.missing("py_leaf_split_shape", "LeafNode.split not found")
    f = src_of("LeafNode", "split_and_insert")
    if f:
        ifs = [n for n in f.body if isinstance(n, ast.If)]
        rets = _returns(f)
        if len(ifs) == 1 and len(rets) == 1:
            emit_str("py_leaf_split_side", _norm(ifs[0].test) + " ? " + " ; ".join(_norm(x) for x in ifs[0].body) + " : " + " ; ".join(_norm(x) for x in ifs[0].orelse),
                     "LeafNode.split_and_insert: which half receives the entry")
            emit_str("py_leaf_split_ret", _norm(rets[0].value), "LeafNode.split_and_insert: returned (new leaf, separator)")
        else:
            g.missing("py_leaf_split_side", "split_and_insert: unexpected shape")
    else:
        g.missing("py_leaf_split_side", "LeafNode.split_and_insert not found")
    f = src_of("BranchNode", "split")
    if f:
        shape = [_norm(n) for n in f.body if isinstance(n, ast.Assign)] + [_norm(r) for r in _returns(f)]
        emit_str("py_branch_split_shape", " ; ".join(shape), "BranchNode.split: the assignments and the return, in order")
    else:
        g.missing("py_branch_split_shape", "BranchNode.split not found")
    f = src_of("BranchNode", "insert_child_and_split_if_needed")
    if f:
        emit_str("py_branch_insert_shape", " ; ".join(_norm(n) for n in f.body if not (isinstance(n, ast.Expr) and isinstance(n.value, ast.Constant))),
                 "BranchNode.insert_child_and_split_if_needed: body")
    else:
        g.missing("py_branch_insert_shape", "insert_child_and_split_if_needed not found")

    # ---- search functions
    f = src_of("LeafNode", "find_position")
    emit_str("py_leaf_find_position", " ; ".join(_norm(n) for n in (f.body if f else []) if not (isinstance(n, ast.Expr) and isinstance(n.value, ast.Constant))),
             "LeafNode.find_position body")
    f = src_of("BranchNode", "find_child_index")
    idx = _assigns(f, "index") if f else []
    emit_str("py_branch_find_child", _norm(idx[0]) if len(idx) == 1 else "?", "BranchNode.find_child_index: the routing expression")

    # ---- _insert_into_leaf decision order
    f = src_of("BPlusTreeMap", "_insert_into_leaf")
    if f:
        tests = [_norm(n.test) for n in f.body if isinstance(n, ast.If)]
        emit_str("py_insert_into_leaf_tests", " ; ".join(tests), "_insert_into_leaf: the tests in order (update, room, else split)")
    else:
        g.missing("py_insert_into_leaf_tests", "_insert_into_leaf not found")

    # ---- delete path
    f = src_of("BPlusTreeMap", "_delete_recursive")
    if f:
        tests = [_norm(n.test) for n in ast.walk(f) if isinstance(n, ast.If)]
        emit_str("py_delete_tests", " ; ".join(tests), "_delete_recursive: every `if` test in source order")
    else:
        g.missing("py_delete_tests", "_delete_recursive not found")
    f = src_of("BPlusTreeMap", "_handle_underflow")
    if f:
        tests = [_norm(n.test) for n in ast.walk(f) if isinstance(n, ast.If)]
        emit_str("py_underflow_tests", " ; ".join(tests), "_handle_underflow: every `if` test in source order")
        emit_bool("py_empty_shortcut_leaf_only", any(re.fullmatch(r"len\(child\) == 0 and child\.is_leaf\(\)", t) for t in tests),
                  "D8: the `empty child -> merge only` shortcut applies to leaves only")
        calls = [c for c in _calls(f) if c.startswith("self._")]
        emit_str("py_underflow_calls", " ; ".join(calls), "_handle_underflow: helper calls in source order")
    else:
        g.missing("py_underflow_tests", "_handle_underflow not found")
    f = src_of("BPlusTreeMap", "_merge_with_sibling")
    if f:
        guards = []
        for n in ast.walk(f):
            if isinstance(n, ast.If) and "total_keys" in _norm(n.test):
                guards.append(_norm(n.test))
        totals = [_norm(v) for v in _assigns(f, "total_keys")] + [_norm(v) for v in _assigns(f, "total_children")]
        emit_str("py_merge_guards", " ; ".join(guards), "_merge_with_sibling: the capacity guards (left leaf, left branch, right leaf, right branch)")
        emit_str("py_merge_totals", " ; ".join(totals), "_merge_with_sibling: what the guards measure")
        tests = [_norm(n.test) for n in f.body if isinstance(n, ast.If)]
        emit_str("py_merge_side_tests", " ; ".join(tests), "_merge_with_sibling: top-level tests (structure checks, then prefer left)")
    else:
        g.missing("py_merge_guards", "_merge_with_sibling not found")
    for fn in ("_redistribute_from_left", "_redistribute_from_right"):
        f = src_of("BPlusTreeMap", fn)
        if f:
            sets = [_norm(n) for n in ast.walk(f) if isinstance(n, ast.Assign) and _norm(n.targets[0]).startswith("parent.keys[")]
            emit_str("py" + fn + "_sep", " ; ".join(sets), fn + ": separator updates (leaf case, branch case)")
        else:
            g.missing("py" + fn + "_sep", fn + " not found")
    for cls, fns in (("LeafNode", ("borrow_from_left", "borrow_from_right", "merge_with_right")), ("BranchNode", ("borrow_from_left", "borrow_from_right", "merge_with_right"))):
        for fn in fns:
            f = src_of(cls, fn)
            name = "py_%s_%s" % (cls.lower(), fn)
            if f:
                body = [n for n in f.body if not (isinstance(n, ast.Expr) and isinstance(n.value, ast.Constant)) and not isinstance(n, ast.If)]
                emit_str(name, " ; ".join(_norm(n) for n in body), "%s.%s: statements after the donate check" % (cls, fn))
            else:
                g.missing(name, "%s.%s not found" % (cls, fn))

    # ---- readers
    f = src_of("BPlusTreeMap", "get")
    if f:
        rets = [_norm(r.value) for r in _returns(f)]
        emit_str("py_get_return", " ; ".join(rets), "get(): the return expression")
        emit_bool("py_get_checks_presence", rets == ["node.values[pos] if exists else default"], "D6: get() decides presence by position")
    else:
        g.missing("py_get_return", "get not found")
    f = src_of("BPlusTreeMap", "__len__")
    if f:
        calls = _calls(f)
        emit_bool("py_len_iterative", not any("key_count" in c or "__len__" in c for c in calls) and any(isinstance(n, ast.While) for n in ast.walk(f)),
                  "D7: __len__ walks the chain in a loop and calls no recursive helper : calls = %s" % calls)
    else:
        g.missing("py_len_iterative", "__len__ not found")
    f = src_of("BPlusTreeMap", "items")
    if f:
        tests = [_norm(n.test) for n in ast.walk(f) if isinstance(n, (ast.If, ast.While))]
        emit_str("py_items_tests", " ; ".join(tests), "items(): every test in source order")
        fors = [_norm(n.iter) for n in ast.walk(f) if isinstance(n, ast.For)]
        emit_str("py_items_for", " ; ".join(fors), "items(): the index loop")
    else:
        g.missing("py_items_tests", "items not found")
    f = src_of("BPlusTreeMap", "_find_position_in_leaf")
    if f:
        tests = [_norm(n.test) for n in ast.walk(f) if isinstance(n, (ast.If, ast.While))]
        emit_str("py_find_position_in_leaf_tests", " ; ".join(tests), "_find_position_in_leaf: loop and comparison")
    else:
        g.missing("py_find_position_in_leaf_tests", "_find_position_in_leaf not found")
    f = src_of("BPlusTreeMap", "_insert_sorted_optimized")
    if f:
        ifs = [n for n in f.body if isinstance(n, ast.If)]
        emit_str("py_sorted_fast_test", _norm(ifs[0].test) if ifs else "?", "_insert_sorted_optimized: when the cached rightmost leaf is appended to")
        emit_str("py_sorted_fast_body", " ; ".join(_norm(x) for x in ifs[0].body) if ifs else "?", "_insert_sorted_optimized: the fast path")
    else:
        g.missing("py_sorted_fast_test", "_insert_sorted_optimized not found")
    f = src_of("BPlusTreeMap", "__setitem__")
    if f:
        emit_str("py_setitem_shape", " ; ".join(_norm(n) for n in ast.walk(f) if isinstance(n, (ast.Assign,)) or (isinstance(n, ast.Expr) and isinstance(n.value, ast.Call))),
                 "__setitem__: assignments and calls (root growth)")
    else:
        g.missing("py_setitem_shape", "__setitem__ not found")
    # the compositions of the dict API
    for fn in ("pop", "popitem", "setdefault", "copy", "clear", "__getitem__", "__contains__", "__delitem__", "__bool__"):
        f = src_of("BPlusTreeMap", fn)
        if f:
            body = [n for n in f.body if not (isinstance(n, ast.Expr) and isinstance(n.value, ast.Constant))]
            emit_str("py_api_" + fn.strip("_"), " ; ".join(_norm(n) for n in body), "BPlusTreeMap.%s body" % fn)
        else:
            g.missing("py_api_" + fn.strip("_"), "BPlusTreeMap.%s not found" % fn)
