#!/bin/sh
# Build everything the checks need, offline, from files on disk only.
set -e
cd "$(dirname "$0")"
export CARGO_NET_OFFLINE=true
python3 tools/extract.py
(cd lean && lake build BPT bptdriver)
(cd harness/rust && cargo build --offline)
python3 harness/py/charness.py build
echo "setup: ok"
